#!/bin/sh
# Offline setup: only verifies that the interpreters and solvers the checks use are present.
set -e
cd "$(dirname "$0")"
python3-vt -c "import z3; print('z3 module', z3.get_version_string())"
/venv/bin/python -c "import vivarium, numpy, networkx; print('vivarium from', vivarium.__file__)"
/usr/bin/z3 --version
mkdir -p evidence out
echo setup ok
