"""Witness F-C13-store-end: Engine(store=...) does not wrap the processes of a ready-made store that are marked `_parallel` (they run
in the engine's own OS process, which is transparent) -- but Engine.end(), which MUST be called at the end of a simulation, then died
with an AssertionError on exactly those processes.  Exit 1 while the defect is present."""
import sys
from vivarium.core.engine import Engine
from vivarium.core.process import Process
from vivarium.core.store import generate_state


class P(Process):
    defaults = {'timestep': 1.0}

    def ports_schema(self):
        return {'s': {'x': {'_default': 0, '_emit': True}}}

    def next_update(self, timestep, states):
        return {'s': {'x': 1}}


def run(parallel):
    procs, topo = {'a': P({'_parallel': parallel})}, {'a': {'s': ('s',)}}
    eng = Engine(store=generate_state(procs, topo, {}), display_info=False, emitter='null')
    eng.update(3)
    x = eng.state.get_value()['s']['x']
    eng.end()
    eng.end()
    return x


serial = run(False)
try:
    par = run(True)
except AssertionError as e:
    print('Engine.end() raised AssertionError for a process marked _parallel inside a ready-made store')
    sys.exit(1)
print('x after 3 ticks: serial %r, marked parallel %r' % (serial, par))
sys.exit(0 if serial == par == 3 else 1)
