"""Witness F-C13-dividepending: dividing a compartment whose process has an update in flight (the divider
is listed before it, so its update is collected later in the same batch) must not hand the daughters
process copies that believe a command is still pending."""
import sys
from vivarium.core.process import Process
from vivarium.core.engine import Engine

class P(Process):
    defaults = {'timestep': 1.0}
    def ports_schema(self):
        return {'s': {'x': {'_default': 0, '_divider': 'split'}}}
    def next_update(self, timestep, states):
        return {'s': {'x': 1}}

class Div(Process):
    defaults = {'timestep': 1.0}
    def ports_schema(self):
        return {'agents': {'*': {'s': {'x': {'_default': 0, '_divider': 'split'}}}}}
    def next_update(self, timestep, states):
        if 'm' in states['agents']:
            return {'agents': {'_divide': {'mother': 'm', 'daughters': [{'key': 'd1'}, {'key': 'd2'}]}}}
        return {}

bad = []
for first in ('div', 'agents'):
    procs = {'div': Div(), 'agents': {'m': {'p': P()}}}
    if first == 'agents':
        procs = {'agents': procs['agents'], 'div': procs['div']}
    try:
        e = Engine(processes=procs, topology={'div': {'agents': ('agents',)}, 'agents': {'m': {'p': {'s': ('s',)}}}},
                   initial_state={'agents': {'m': {'s': {'x': 8}}}}, display_info=False)
        e.update(3)
        xs = sorted(v['s']['x'] for v in e.state.get_value()['agents'].values())
        print(first, 'daughters x:', xs)
        if len(xs) != 2 or sum(xs) < 8:
            bad.append(first)
    except Exception as exc:
        print(first, 'raised', type(exc).__name__, str(exc)[:90]); bad.append(first)
sys.exit(1 if bad else 0)
