"""Witness F-C03-shrink (KNOWN FINDING, not repaired): a process that was deferred (its requested step overshot the
end of a run_for call) is polled again and now answers a shorter timestep that ends before the current global time.
The engine schedules its update in the past: the clock steps backwards and a row is emitted for a time already passed.
Exit 1 while the defect is present."""
import sys
from vivarium.core.process import Process
from vivarium.core.engine import Engine

class Adaptive(Process):
    defaults = {'timestep': 1.0}
    def __init__(self, parameters=None):
        super().__init__(parameters)
        self.polls = 0
    def ports_schema(self):
        return {'s': {'x': {'_default': 0, '_emit': True}}}
    def calculate_timestep(self, states):
        self.polls += 1
        return 1.5 if self.polls == 1 else 0.1
    def next_update(self, timestep, states):
        return {'s': {'x': 1}}

e = Engine(processes={'p': Adaptive()}, topology={'p': {'s': ('s',)}}, display_info=False)
times = [e.global_time]
try:
    e.run_for(1.0)          # 0 + 1.5 > 1.0: deferred, clock jumps to 1.0
    times.append(e.global_time)
    seen = []
    orig = e._emit_store_data
    def spy():
        seen.append(e.global_time); orig()
    e._emit_store_data = spy
    e.run_for(1.0)          # re-polled from front time 0 with timestep 0.1 -> due at 0.1 < 1.0
    times.append(e.global_time)
    print('clock after the calls', times, 'emits', seen[:4])
    bad = any(t < 1.0 for t in seen)
except Exception as exc:
    print('raised', type(exc).__name__, str(exc)[:100]); bad = True
sys.exit(1 if bad else 0)
