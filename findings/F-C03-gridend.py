"""Witness F-C03-gridend (repaired): global_time_precision=1, timestep 0.6, update(0.3) then update(0.6): the event due at 0.9 == end of the call
was judged by the unrounded sum 0.3 + 0.6000000000000001 > 0.9, never applied, and update() raised AssertionError.
Exit 1 while the defect is present."""
import sys
from vivarium.core.engine import Engine
from vivarium.core.process import Process
class P(Process):
    defaults={'timestep':0.6}
    def ports_schema(self): return {'s': {'x': {'_default': 0.0, '_updater': 'accumulate'}}}
    def next_update(self, t, states): return {'s': {'x': t}}
e=Engine(processes={'a':P()}, topology={'a':{'s':('s',)}}, global_time_precision=1, display_info=False, emitter='null')
try:
    e.update(0.3); e.update(0.6)
    x=e.state.get_value()['s']['x']
    print('time', e.global_time, 'x', x)
    sys.exit(0 if abs(x-0.9)<1e-9 and e.global_time==0.9 else 1)
except AssertionError as ex:
    print('AssertionError', str(ex)[:100]); sys.exit(1)
