"""Witness F-C09-delpath: `_delete` must remove children named by key or by
path (tuple), and the engine must stop running processes below them."""
import sys
from vivarium.core.process import Process
from vivarium.core.engine import Engine

class Inc(Process):
    defaults = {'timestep': 1.0}
    calls = None
    def ports_schema(self):
        return {'s': {'x': {'_default': 0, '_emit': True}}}
    def next_update(self, timestep, states):
        self.parameters['log'].append(self.parameters['name'])
        return {'s': {'x': 1}}

class Killer(Process):
    defaults = {'timestep': 1.0, 'form': 'tuple'}
    def ports_schema(self):
        return {'agents': {'*': {}}}
    def next_update(self, timestep, states):
        if self.parameters['fired']:
            return {}
        self.parameters['fired'].append(1) if False else None
        self.parameters['fired_flag'][0] += 1
        if self.parameters['fired_flag'][0] == 2:
            target = ('a1',) if self.parameters['form'] == 'tuple' else 'a1'
            return {'agents': {'_delete': [target]}}
        return {}

def run(form):
    log = []
    procs = {'agents': {'a1': {'inc': Inc({'log': log, 'name': 'a1'})},
                        'a2': {'inc': Inc({'log': log, 'name': 'a2'})}},
             'killer': Killer({'form': form, 'fired': [], 'fired_flag': [0]})}
    topo = {'agents': {'a1': {'inc': {'s': ('s',)}}, 'a2': {'inc': {'s': ('s',)}}},
            'killer': {'agents': ('agents',)}}
    e = Engine(processes=procs, topology=topo, display_info=False, progress_bar=False)
    e.update(5)
    keys = sorted(e.state.get_value()['agents'].keys())
    return keys, log.count('a1'), log.count('a2'), sorted(e.process_paths)

bad = []
for form in ('key', 'tuple'):
    keys, n1, n2, paths = run(form)
    print(form, keys, n1, n2, paths)
    if keys != ['a2'] or n1 >= n2 or ('agents', 'a1', 'inc') in paths:
        bad.append(form)
sys.exit(1 if bad else 0)
