"""Witness F-C10-flow / F-C10-movestep: after a compartment holding a legacy
deriver and a flow step (with a dependency) is moved, each step runs exactly
once per phase, in flow order, and the published composite equals what the
hierarchy holds."""
import sys
from vivarium.core.process import Process, Step, Deriver
from vivarium.core.engine import Engine

LOG = []

class Tick(Process):
    defaults = {'timestep': 1.0}
    def ports_schema(self):
        return {'s': {'x': {'_default': 0, '_emit': True}}}
    def next_update(self, timestep, states):
        LOG.append('tick')
        return {'s': {'x': 1}}

class D(Deriver):
    def ports_schema(self):
        return {'s': {'x': {'_default': 0}}}
    def next_update(self, timestep, states):
        LOG.append(self.parameters['name'])
        return {}

class S(Step):
    def ports_schema(self):
        return {'s': {'x': {'_default': 0}}}
    def next_update(self, timestep, states):
        LOG.append(self.parameters['name'])
        return {}

class Mover(Process):
    defaults = {'timestep': 1.0}
    def ports_schema(self):
        return {'src': {'*': {}}, 'dst': {'*': {}}}
    def next_update(self, timestep, states):
        if 'a' in states['src']:
            return {'src': {'_move': [{'source': ('a',), 'target': ('dst',)}]}}
        return {}

def main():
    procs = {'A': {'a': {'tick': Tick()}, 'b': {'tick': Tick()}}, 'mover': Mover()}
    steps = {'A': {'a': {'d': D({'name': 'd'}), 's1': S({'name': 's1'}), 's2': S({'name': 's2'})}}}
    flow = {'A': {'a': {'s1': [], 's2': [('s1',)]}}}
    port = {'s': ('s',)}
    topo = {'mover': {'src': ('A',), 'dst': ('B',)},
            'A': {'a': {'tick': port, 'd': port, 's1': port, 's2': port},
                  'b': {'tick': port}}}
    e = Engine(processes=procs, steps=steps, flow=flow, topology=topo,
               initial_state={'B': {}}, display_info=False)
    e.update(1)          # move happens at t=1
    del LOG[:]
    e.update(1)          # one tick, then one step phase
    print('log after move:', LOG)
    phase = [x for x in LOG if x != 'tick']
    ok = phase == ['d', 's1', 's2']
    pub = dict(processes=e.processes, steps=e.steps, flow=e.flow, topology=e.topology)
    st = dict(processes=e.state.get_processes(), steps=e.state.get_steps() or {},
              flow=e.state.get_flow() or {}, topology=e.state.get_topology())
    for k in pub:
        def strip(d):
            return {a: strip(b) for a, b in d.items() if not (isinstance(b, dict) and not strip(b))} if isinstance(d, dict) else d
        if strip(pub[k]) != strip(st[k]):
            print('published', k, 'differs:', pub[k], 'vs', st[k])
            ok = False
    return ok

if __name__ == '__main__':
    try:
        ok = main()
    except Exception as exc:   # moved flow step raises on the pinned tree
        print('raised:', type(exc).__name__, exc)
        ok = False
    sys.exit(0 if ok else 1)
