"""Witness F-C11-initial-alias (repaired): Store.divide merged the explicit initial_state of a daughter by reference; one object used for both daughters
made them share a list.  Exit 1 while the defect is present."""
import sys
from vivarium.core.engine import Engine
from vivarium.core.process import Process
class Holder(Process):
    defaults={'timestep':1.0}
    def ports_schema(self): return {'internal': {'tags': {'_default': [], '_updater': 'set', '_divider': 'set'}, 'n': {'_default': 4, '_divider': 'split'}}}
    def next_update(self, t, s): return {}
class Div(Process):
    defaults={'timestep':1.0}
    done=False
    def ports_schema(self): return {'agents': {'*': {}}}
    def next_update(self, t, s):
        if self.done: return {}
        self.done=True
        init={'internal': {'tags': ['x']}}
        return {'agents': {'_divide': {'mother': '1', 'daughters': [{'key': 'a', 'initial_state': init}, {'key': 'b', 'initial_state': init}]}}}
e=Engine(processes={'div': Div(), 'agents': {'1': {'h': Holder()}}}, topology={'div': {'agents': ('agents',)}, 'agents': {'1': {'h': {'internal': ('internal',)}}}}, display_info=False, emitter='null')
e.update(1)
ag=e.state.get_value()['agents']
ta=e.state.get_path(('agents','a','internal','tags')).value; tb=e.state.get_path(('agents','b','internal','tags')).value
print(sorted(ag), ta, tb, 'same object:', ta is tb)
sys.exit(1 if ta is tb else 0)
