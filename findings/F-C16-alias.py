"""Witness F-C16-alias: merging composite A into B leaves A unchanged, at the
call and under later merges into B; loose arguments are not captured either."""
import sys, copy
from vivarium.core.composer import Composite
from vivarium.core.process import Process

class P(Process):
    def ports_schema(self):
        return {'s': {'x': {'_default': 0}}}
    def next_update(self, timestep, states):
        return {}

def snap(c):
    def ids(d):
        return {k: ids(v) if isinstance(v, dict) else (id(v) if isinstance(v, Process) else v) for k, v in d.items()}
    return {k: ids(c[k]) for k in ('processes', 'topology', 'steps', 'flow', 'state')}

bad = []
A = Composite({'processes': {'cell': {'p': P()}}, 'topology': {'cell': {'p': {'s': ('s',)}}},
               'state': {'cell': {'s': {'x': 1}}}})
a0 = snap(A)
B = Composite({})
loose = {'cell': {'r': P()}}
loose_topo = {'cell': {'r': {'s': ('s',)}}}
l0 = (copy.copy(loose['cell']), copy.copy(loose_topo['cell']))
B.merge(composite=A, processes=loose, topology=loose_topo)
if snap(A) != a0:
    bad.append('A changed by the merge call itself')
B.merge(processes={'cell': {'q': P()}}, topology={'cell': {'q': {'s': ('s',)}}},
        state={'cell': {'s': {'y': 2}}})
if snap(A) != a0:
    bad.append('A changed by a later merge into B')
if (loose['cell'], loose_topo['cell']) != l0:
    bad.append('loose argument changed by a later merge into B')
if set(B.processes['cell']) != {'p', 'q', 'r'}:
    bad.append('B is not the union')
print(bad)
sys.exit(1 if bad else 0)
