"""Witness F-C13-end: a parallel process that is deleted (or whose engine is
ended) while its update is still in flight must be stopped and reaped without
error, and the run must look like the serial run."""
import sys, multiprocessing, time
from vivarium.core.process import Process
from vivarium.core.engine import Engine

class Inc(Process):
    defaults = {'timestep': 2.0}
    def ports_schema(self):
        return {'s': {'x': {'_default': 0, '_emit': True}}}
    def next_update(self, timestep, states):
        return {'s': {'x': 1}}

class Killer(Process):
    defaults = {'timestep': 1.0, 'at': 1}
    def ports_schema(self):
        return {'agents': {'*': {}}, 'g': {'k': {'_default': 0}}}
    def next_update(self, timestep, states):
        if states['g']['k'] + 1 == self.parameters['at'] and 'a1' in states['agents']:
            return {'agents': {'_delete': ['a1']}, 'g': {'k': 1}}
        return {'g': {'k': 1}}

def run(parallel, at, killer_first):
    inc1 = Inc({'_parallel': parallel}); inc2 = Inc({'_parallel': parallel})
    agents = {'a1': {'inc': inc1}, 'a2': {'inc': inc2}}
    killer = Killer({'at': at})
    procs = {'killer': killer, 'agents': agents} if killer_first else {'agents': agents, 'killer': killer}
    topo = {'agents': {'a1': {'inc': {'s': ('s',)}}, 'a2': {'inc': {'s': ('s',)}}},
            'killer': {'agents': ('agents',), 'g': ('g',)}}
    e = Engine(processes=procs, topology=topo, display_info=False)
    e.update(5)
    data = e.emitter.get_data()
    e.end(); e.end()
    return data

if __name__ == '__main__':
    bad = []
    for at in (1, 2):                 # 1: update in flight; 2: due in the same batch
        for killer_first in (True, False):
            try:
                serial = run(False, at, killer_first)
                par = run(True, at, killer_first)
                if serial != par:
                    bad.append(('differs', at, killer_first))
            except Exception as exc:
                print('raised', at, killer_first, type(exc).__name__, exc)
                bad.append(('raised', at, killer_first))
    time.sleep(0.5)
    kids = multiprocessing.active_children()
    print('bad', bad, 'children left', len(kids))
    for k in kids:
        k.terminate()
    sys.exit(1 if bad or kids else 0)
