"""Witness F-C11-share: after a division the daughters hold separate state:
an in-place update (dict_value updater) of one daughter's variable does not
show up in the other daughter."""
import sys
from vivarium.core.process import Process
from vivarium.core.engine import Engine

class Divider(Process):
    defaults = {'timestep': 1.0}
    def ports_schema(self):
        return {'agents': {'*': {'bag': {'_default': {}, '_updater': 'dict_value', '_divider': 'set'},
                                 'n': {'_default': 0}}}}
    def next_update(self, timestep, states):
        agents = states['agents']
        if 'm' in agents:
            return {'agents': {'_divide': {'mother': 'm', 'daughters': [
                {'key': 'd1', 'processes': {}, 'topology': {}, 'initial_state': {}},
                {'key': 'd2', 'processes': {}, 'topology': {}, 'initial_state': {}}]}}}
        if 'd1' in agents and 'k' not in agents['d1']['bag']:
            return {'agents': {'d1': {'bag': {'_add': [{'key': 'k', 'state': 1}]}}}}
        return {}

e = Engine(processes={'div': Divider()}, topology={'div': {'agents': ('agents',)}},
           initial_state={'agents': {'m': {'bag': {'a': {'z': 0}}, 'n': 3}}}, display_info=False)
e.update(3)
ag = e.state.get_value()['agents']
print(ag)
ok = set(ag) == {'d1', 'd2'} and 'k' in ag['d1']['bag'] and 'k' not in ag['d2']['bag']
sys.exit(0 if ok else 1)
