"""Witness F-C09-emptied-branch (repaired): the last agent of a colony is deleted while its process still has an update due, then a new agent is
generated into the colony.  The emptied colony store was treated as a leaf and the engine raised 'updater is absent'.
Exit 1 while the defect is present."""
import sys
from vivarium.core.engine import Engine
from vivarium.core.process import Process
class Grow(Process):
    defaults={'timestep':1.0}
    def ports_schema(self): return {'v': {'x': {'_default': 0}}}
    def next_update(self, t, s): return {'v': {'x': 1}}
class Churn(Process):
    defaults={'timestep':1.0}
    k=0
    def ports_schema(self): return {'agents': {}}
    def next_update(self, t, states):
        self.k+=1
        if self.k==1: return {'agents': {'_delete': ['a']}}
        if self.k==2: return {'agents': {'_generate': [{'key': 'b', 'processes': {'grow': Grow()}, 'topology': {'grow': {'v': ('v',)}}, 'initial_state': {}}]}}
        return {}
e=Engine(processes={'c': Churn(), 'agents': {'a': {'grow': Grow()}}}, topology={'c': {'agents': ('agents',)}, 'agents': {'a': {'grow': {'v': ('v',)}}}}, display_info=False, emitter='null')
try:
    e.update(4)
    v=e.state.get_value()['agents']
    print({k: x['v'] for k, x in v.items()}); sys.exit(0 if set(v)=={'b'} and v['b']['v']=={'x': 2} else 1)
except Exception as ex:
    print('raised', str(ex)[:160]); sys.exit(1)
