"""Witness F-C03-subgrid-hang: with global_time_precision=2 a process whose (positive) timestep is finer than the time grid
(0.004) made update(1.0) spin forever: round(0 + 0.004, 2) == 0.0, so the process never advanced and the clock never moved.
The call must end after finitely many scheduler iterations -- here: by refusing the timestep with an error that names it.
Exit 1 while the defect is present (the call does not return within 10 s)."""
import signal, sys
from vivarium.core.engine import Engine
from vivarium.core.process import Process


class Fine(Process):
    defaults = {'timestep': 0.004}

    def ports_schema(self):
        return {'s': {'x': {'_default': 0.0}}}

    def next_update(self, timestep, states):
        return {'s': {'x': timestep}}


def on_alarm(signum, frame):
    print('update(1.0) did not return within 10 s')
    sys.exit(1)


eng = Engine(processes={'p': Fine()}, topology={'p': {'s': ('s',)}}, global_time_precision=2, display_info=False, emitter='null')
signal.signal(signal.SIGALRM, on_alarm)
signal.alarm(10)
try:
    eng.update(1.0)
    print('update(1.0) returned at global time', eng.global_time)
    ok = eng.global_time == 1.0
except ValueError as e:
    print('refused:', str(e)[:160])
    ok = 'timestep' in str(e)
signal.alarm(0)
# a timestep of exactly HALF a grid cell (precision 1, 0.05): on its own it rounds to a full cell, but from 0.2 the sum 0.25 rounds
# half-to-even back onto 0.2 -- the same stall two ticks later.  The call must end: by an error that names the timestep, or at 1.0
eng3 = Engine(processes={'p': Fine({'timestep': 0.05})}, topology={'p': {'s': ('s',)}}, global_time_precision=1, display_info=False, emitter='null')
signal.alarm(10)
try:
    eng3.update(1.0)
    ok = ok and eng3.global_time == 1.0
except ValueError as e:
    print('refused:', str(e)[:120])
    ok = ok and 'timestep' in str(e)
signal.alarm(0)
# a timestep ON the grid keeps working
eng2 = Engine(processes={'p': Fine({'timestep': 0.25})}, topology={'p': {'s': ('s',)}}, global_time_precision=2, display_info=False, emitter='null')
eng2.update(1.0)
ok = ok and eng2.global_time == 1.0 and abs(eng2.state.get_value()['s']['x'] - 1.0) < 1e-9
sys.exit(0 if ok else 1)
