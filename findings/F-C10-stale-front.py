"""Witness F-C10-stale-front (repaired): agent a (slow process, update in flight) is deleted and re-created at the same path within one batch of updates.
The new process inherited the old front entry.  Exit 1 while the defect is present."""
import sys
from vivarium.core.engine import Engine
from vivarium.core.process import Process
LOG=[]
class Slow(Process):
    defaults={'timestep': 10.0, 'tag': 'old'}
    def ports_schema(self): return {'v': {'x': {'_default': 100, '_updater': 'accumulate'}}}
    def next_update(self, t, s):
        LOG.append((self.parameters['tag'], t)); return {'v': {'x': 1}}
class Killer(Process):
    defaults={'timestep': 1.0}
    k=0
    def ports_schema(self): return {'agents': {'*': {}}}
    def next_update(self, t, s):
        self.k+=1
        return {'agents': {'_delete': ['a']}} if self.k==3 else {}
class Maker(Process):
    defaults={'timestep': 1.0}
    k=0
    def ports_schema(self): return {'agents': {'*': {}}}
    def next_update(self, t, s):
        self.k+=1
        if self.k==3:
            return {'agents': {'_generate': [{'key': 'a', 'processes': {'slow': Slow({'tag': 'new', 'timestep': 2.0})}, 'topology': {'slow': {'v': ('v',)}}, 'initial_state': {}}]}}
        return {}
e=Engine(processes={'killer': Killer(), 'maker': Maker(), 'agents': {'a': {'slow': Slow()}, 'b': {'slow': Slow({'tag': 'b'})}}},
         topology={'killer': {'agents': ('agents',)}, 'maker': {'agents': ('agents',)}, 'agents': {'a': {'slow': {'v': ('v',)}}, 'b': {'slow': {'v': ('v',)}}}},
         display_info=False, emitter='null')
orig=e._invoke_process if hasattr(e,'_invoke_process') else None
times=[]
import vivarium.core.engine as EN
o=EN._process_update
def spy(path, process, store, states, interval):
    if path==('agents','a','slow'): times.append((process.parameters.get('tag'), e.global_time, interval))
    return o(path, process, store, states, interval)
EN._process_update=spy
e.update(9)
x=e.state.get_value()['agents']['a']['v']['x']
print(times, 'x', x)
# new process created at t=3 with timestep 2: intervals start at 3: invoked at 3,5,7 ; x = 100 + updates applied at 5,7,9 = 103
ok = [t for t in times if t[0]=='new'][:1] == [('new', 3.0, 2.0)] and x == 103
sys.exit(0 if ok else 1)
