"""Witness F-C01-move-inflight (KNOWN FINDING, not repaired): an agent is moved (_move) by an update that is applied BEFORE the
update of a process inside that agent in the same batch (the mover is listed first).  The pending update was inverted for the
agent's OLD path (Defer holds (path, topology)), the path no longer exists when it is applied, and the update is dropped without
a word: an update returned by a live process is lost.  Exit 1 while the defect is present."""
import sys
from vivarium.core.engine import Engine
from vivarium.core.process import Process


class Grower(Process):
    defaults = {'timestep': 1.0}

    def ports_schema(self):
        return {'pool': {'x': {'_default': 0, '_emit': True}}}

    def next_update(self, timestep, states):
        return {'pool': {'x': 1}}


class Mover(Process):
    defaults = {'timestep': 1.0}
    calls = 0

    def ports_schema(self):
        return {'one': {'*': {}}, 'two': {'*': {}}}

    def next_update(self, timestep, states):
        self.calls += 1
        if self.calls == 2 and 'a' in states['one']:
            return {'one': {'_move': [{'source': ('a',), 'target': ('two',)}]}}
        return {}


def run(mover_first):
    procs = {'mover': Mover(), 'site1': {'a': {'grower': Grower()}}}
    if not mover_first:
        procs = {'site1': procs['site1'], 'mover': procs['mover']}
    eng = Engine(processes=procs,
                 topology={'mover': {'one': ('site1',), 'two': ('site2',)}, 'site1': {'a': {'grower': {'pool': ('pool',)}}}},
                 display_info=False, emitter='null')
    eng.update(4)
    v = eng.state.get_value()
    return v['site2']['a']['pool']['x']


last, first = run(False), run(True)
print('x after 4 ticks of +1, agent moved at t=2: mover listed last -> %r, mover listed first -> %r (expected 4 in both)' % (last, first))
sys.exit(1 if (last, first) != (4, 4) else 0)
