"""Witness F-C05-deriver-twice: a legacy deriver (a step without a flow entry) is replaced in place by a _generate over its
compartment.  Its path was appended to the sequential list a second time, so the new deriver ran twice in every later step
phase.  Exit 1 while the defect is present."""
import sys
from vivarium.core.engine import Engine
from vivarium.core.process import Process, Step

RUNS = []


class Count(Step):
    defaults = {'tag': 'old'}

    def ports_schema(self):
        return {'v': {'c': {'_default': 0, '_updater': 'accumulate'}}}

    def next_update(self, timestep, states):
        RUNS.append(self.parameters['tag'])
        return {'v': {'c': 1}}


class Upgrade(Process):
    defaults = {'timestep': 1.0}
    calls = 0

    def ports_schema(self):
        return {'cells': {'*': {}}}

    def next_update(self, timestep, states):
        self.calls += 1
        if self.calls != 2:
            return {}
        return {'cells': {'_generate': [{'key': 'cell', 'processes': {}, 'steps': {'d': Count({'tag': 'new'})},
                                          'topology': {'d': {'v': ('v',)}}, 'initial_state': {}}]}}


eng = Engine(processes={'up': Upgrade()}, steps={'cells': {'cell': {'d': Count()}}},
             topology={'up': {'cells': ('cells',)}, 'cells': {'cell': {'d': {'v': ('v',)}}}},
             display_info=False, emitter='null')
eng.update(2)            # the replacement is applied at t=2 (one step phase with the new deriver follows)
del RUNS[:]
eng.update(3)            # three more step phases
print('deriver invocations in 3 step phases after the replacement:', RUNS)
sys.exit(0 if RUNS == ['new'] * 3 else 1)
