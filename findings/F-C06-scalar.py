"""Witness F-C06-scalar: when several leaf ports / variables of one process
are wired to one node, every one of their updates is applied."""
import sys
from vivarium.core.process import Process
from vivarium.core.engine import Engine

class TwoPorts(Process):
    defaults = {'timestep': 1.0}
    def ports_schema(self):
        return {'a': {'_default': 0, '_emit': True}, 'b': {'_default': 0},
                'p': {'u': {'_default': 0}, 'v': {'_default': 0}}}
    def next_update(self, timestep, states):
        return {'a': 1, 'b': 10, 'p': {'u': 100, 'v': 1000}}

e = Engine(processes={'t': TwoPorts()},
           topology={'t': {'a': ('x',), 'b': ('x',),
                           'p': {'_path': ('s',), 'u': ('..', 'y'), 'v': ('..', 'y')}}},
           display_info=False)
e.update(2)
val = e.state.get_value()
print({k: v for k, v in val.items() if k != 't'})
ok = val['x'] == 22 and val['y'] == 2200
sys.exit(0 if ok else 1)
