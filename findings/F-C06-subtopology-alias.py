"""Witness F-C06-subtopology-alias (repaired): two processes declare glob ports on ONE store with sub-topologies that wire the same variable to different nodes.
The store adopted the nested dictionaries of the first declaration by reference and merged the second into them: the first
process's own topology changed and it read and wrote the wrong node.  Exit 1 while the defect is present."""
from vivarium.core.engine import Engine
from vivarium.core.process import Process
import copy, sys
class G(Process):
    defaults={'timestep':1.0,'var':'y'}
    def ports_schema(self): return {'agents': {'*': {'b': {'x': {'_default': 0, '_updater': 'accumulate'}}}}}
    def next_update(self, t, states):
        self.seen = copy.deepcopy(states)
        return {'agents': {k: {'b': {'x': 1 if self.parameters['var']=='y' else 10}} for k in states['agents']}}
class Owner(Process):
    def ports_schema(self): return {'boundary': {'y': {'_default': 0, '_updater':'accumulate'}, 'z': {'_default': 0, '_updater':'accumulate'}}}
    def next_update(self, t, s): return {}
t1={'agents': {'_path': ('agents',), '*': {'b': {'_path': ('boundary',), 'x': ('y',)}}}}
t2={'agents': {'_path': ('agents',), '*': {'b': {'_path': ('boundary',), 'x': ('z',)}}}}
before=copy.deepcopy(t1)
g1,g2=G({'var':'y'}),G({'var':'z'})
e=Engine(processes={'g1':g1,'g2':g2,'agents':{'a':{'owner':Owner()}}}, topology={'g1':t1,'g2':t2,'agents':{'a':{'owner':{'boundary':('boundary',)}}}}, display_info=False, emitter='null')
e.update(2)
val=e.state.get_value()['agents']['a']['boundary']
print('boundary', val, 'topology of g1 unchanged:', t1==before, t1)
sys.exit(0 if (val=={'y':2,'z':20} and t1==before) else 1)
