"""Witness F-C03-hang / F-C03-quietlag: a composite whose processes are all
quiet must still reach end_time, and a quiet process must not be polled from
a past time later (which made the clock step backwards)."""
import sys, signal
from vivarium.core.process import Process
from vivarium.core.engine import Engine

class Cond(Process):
    defaults = {'timestep': 1.0}
    def ports_schema(self):
        return {'g': {'n': {'_default': 0, '_emit': True}, 'on': {'_default': False}}}
    def update_condition(self, timestep, states):
        return bool(states['g']['on'])
    def next_update(self, timestep, states):
        return {'g': {'n': 1}}

class Slow(Process):
    defaults = {'timestep': 5.0}
    def ports_schema(self):
        return {'g': {'m': {'_default': 0, '_emit': True}}}
    def next_update(self, timestep, states):
        return {'g': {'m': 1}}

def alarm(*_):
    raise TimeoutError('hang')
signal.signal(signal.SIGALRM, alarm)
bad = []

# (a) all quiet: must terminate and land on end_time
signal.alarm(10)
try:
    e = Engine(processes={'c': Cond()}, topology={'c': {'g': ('g',)}}, display_info=False)
    e.update(2)
    assert e.global_time == 2, e.global_time
    print('all-quiet update(2) ok, global', e.global_time)
except (TimeoutError, AssertionError) as exc:
    print('all-quiet:', type(exc).__name__, exc); bad.append('hang')
signal.alarm(0)

# (b) quiet process left behind by "jump to end", then switched on
signal.alarm(10)
try:
    e = Engine(processes={'c': Cond({'timestep': 0.25}), 's': Slow()},
               topology={'c': {'g': ('g',)}, 's': {'g': ('g',)}}, display_info=False)
    times = [e.global_time]
    e.run_for(3)            # Slow deferred (5 > 3): else-branch jump; Cond quiet
    times.append(e.global_time)
    e.state.get_path(('g', 'on')).value = True
    class Spy:
        pass
    seen = []
    orig = e._emit_store_data
    def spy():
        seen.append(e.global_time); orig()
    e._emit_store_data = spy
    e.run_for(1)
    times.append(e.global_time)
    print('times', times, 'emits', seen, 'front', {k: v['time'] for k, v in e.front.items()})
    assert times == [0, 3, 4], times
    assert all(b > a for a, b in zip([3] + seen, seen)), seen
    assert all(3 < t <= 4 for t in seen), seen
except (TimeoutError, AssertionError) as exc:
    print('quiet-lag:', type(exc).__name__, exc); bad.append('lag')
signal.alarm(0)
sys.exit(1 if bad else 0)
