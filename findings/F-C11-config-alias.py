"""Witness F-C11-config-alias: a dividing process builds its daughters with get_divide_update(composer, id, ids,
composer_config={'p': self.parameters}) -- the pattern of the library's own ToyDividerProcess.  Composer.generate deep-copied
its OWN configuration but merged the options it was given by reference, so the processes of both daughters (and the mother)
shared one parameter object: what one daughter appends to its list shows up in the other.  Exit 1 while the defect is present."""
import sys
from vivarium.core.composer import Composer
from vivarium.core.engine import Engine
from vivarium.core.process import Process
from vivarium.processes.division import get_divide_update


class Logger(Process):
    defaults = {'timestep': 1.0, 'log': [], 'divide_at': 2}

    def __init__(self, parameters=None):
        super().__init__(parameters)
        self.calls = 0

    def ports_schema(self):
        return {'agents': {}, 'v': {'x': {'_default': 0, '_divider': 'split'}}}

    def next_update(self, timestep, states):
        self.calls += 1
        self.parameters['log'].append(self.parameters['agent_id'])
        if self.parameters['agent_id'] == '1' and self.calls == self.parameters['divide_at']:
            return {'agents': get_divide_update(self.parameters['composer'], '1', ['10', '11'],
                                                composer_config={'p': {'log': self.parameters['log'], 'divide_at': 99}})}
        return {'v': {'x': 1}}


class Cell(Composer):
    defaults = {'p': {}}

    def generate_processes(self, config):
        return {'p': Logger(dict(config['p'], agent_id=config['agent_id'], composer=self))}

    def generate_topology(self, config):
        return {'p': {'agents': ('..',), 'v': ('v',)}}


comp = Cell({})
first = comp.generate({'agent_id': '1', 'p': {'log': []}}, path=('agents', '1'))
eng = Engine(composite=first, display_info=False, emitter='null')
eng.update(4)
procs = eng.processes['agents']
l10, l11 = procs['10']['p'].parameters['log'], procs['11']['p'].parameters['log']
print('daughter 10 log:', l10)
print('daughter 11 log:', l11)
ok = l10 is not l11 and '11' not in l10 and '10' not in l11
sys.exit(0 if ok else 1)
