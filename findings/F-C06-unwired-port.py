"""Witness F-C06-unwired-port (repaired): a port that the topology does not mention is wired by default to a store of
the same name (the process reads it), but the updates the process returned for it were silently dropped.
Exit 1 while the defect is present."""
import sys
from vivarium.core.engine import Engine
from vivarium.core.process import Process

seen = []


class P(Process):
    defaults = {'timestep': 1.0}

    def ports_schema(self):
        return {'a': {'x': {'_default': 1}}, 'b': {'y': {'_default': 10}}}

    def next_update(self, timestep, states):
        seen.append(states['b']['y'])
        return {'a': {'x': 1}, 'b': {'y': 1}}


e = Engine(processes={'p': P()}, topology={'p': {'a': ('A',)}}, display_info=False, emitter='null')
e.update(3)
val = e.state.get_value()
print('read through the unwired port:', seen, 'node b holds', val.get('b'))
ok = seen == [10, 11, 12] and val.get('b') == {'y': 13} and val['A'] == {'x': 4}
sys.exit(0 if ok else 1)
