"""Witness F-C15-composite-initial (repaired): an engine built from a composite that carries state ignored the initial_state argument.
Exit 1 while the defect is present."""
import sys
from vivarium.core.engine import Engine
from vivarium.core.composer import Composite
from vivarium.core.process import Process
class P(Process):
    defaults={'timestep':1.0}
    def ports_schema(self): return {'s': {'x': {'_default': 0}, 'y': {'_default': 0}}}
    def next_update(self, t, states): return {}
c=Composite({'processes': {'p': P()}, 'topology': {'p': {'s': ('s',)}}, 'state': {'s': {'x': 1}}})
e=Engine(composite=c, initial_state={'s': {'y': 2}}, display_info=False, emitter='null')
v=e.state.get_value()['s']
print(v, 'composite state', c['state'])
sys.exit(0 if v=={'x':1,'y':2} and c['state']=={'s':{'x':1}} else 1)
