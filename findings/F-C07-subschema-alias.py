"""Witness F-C07-subschema-alias (repaired): two processes declare glob ports on ONE store with different nested
sub-variables. The store adopted the nested dictionaries of the first declaration by reference and merged the second
declaration into them, so the first process's own schema grew and it was shown variables it never declared.
Exit 1 while the defect is present."""
import sys
from vivarium.core.engine import Engine
from vivarium.core.process import Process

seen = {}


class P1(Process):
    defaults = {'timestep': 1.0}

    def ports_schema(self):
        return {'agents': {'*': {'boundary': {'x': {'_default': 1}}}}}

    def next_update(self, timestep, states):
        seen['p1'] = states
        return {}


class P2(Process):
    defaults = {'timestep': 1.0}

    def ports_schema(self):
        return {'agents': {'*': {'boundary': {'y': {'_default': 2}}}}}

    def next_update(self, timestep, states):
        seen['p2'] = states
        return {}


bad = False
for order in (('p1', 'p2'), ('p2', 'p1')):
    procs = {'p1': P1(), 'p2': P2()}
    e = Engine(processes={k: procs[k] for k in order}, topology={k: {'agents': ('agents',)} for k in order},
               initial_state={'agents': {'a': {}}}, display_info=False, emitter='null')
    e.update(1)
    if seen['p1'] != {'agents': {'a': {'boundary': {'x': 1}}}} or seen['p2'] != {'agents': {'a': {'boundary': {'y': 2}}}}:
        print('order', order, ': p1 saw', seen['p1'], 'p2 saw', seen['p2'])
        bad = True
sys.exit(1 if bad else 0)
