"""Witness F-C11-split: the split divider must conserve integers of any size
and sign (daughters sum to the mother, differ by at most 1)."""
import sys
from vivarium.core.registry import divide_split
bad = []
for s in [2**53 + 3, -3, -4, 7, 0, 10**30 + 1]:
    for _ in range(8):
        a, b = divide_split(s)
        if a + b != s or abs(a - b) > 1:
            bad.append((s, a, b))
            break
print('bad:', bad)
sys.exit(1 if bad else 0)
