"""Witness F-C16-override-alias: Process.merge_overrides stored the nested dictionaries of the composer's `_schema` override by
reference inside the generated process; a later override merged into ONE generated composite then rewrote the composer's own
override, and every composite generated afterwards took it.  Exit 1 while the defect is present."""
import copy, sys
from vivarium.core.composer import Composer
from vivarium.core.process import Process


class P(Process):
    defaults = {'timestep': 1.0}

    def ports_schema(self):
        return {'port': {'x': {'_default': 0, '_emit': True}, 'y': {'_default': 1}}}

    def next_update(self, timestep, states):
        return {}


class One(Composer):
    def generate_processes(self, config):
        return {'p': P()}

    def generate_topology(self, config):
        return {'p': {'port': ('store',)}}


cfg = {'_schema': {'p': {'port': {'x': {'_default': 7}}}}}
comp = One(copy.deepcopy(cfg))
first = comp.generate()
first.merge(schema_override={'p': {'port': {'x': {'_default': 9}, 'y': {'_default': 5}}}})
held = comp.schema_override
later = comp.generate()['processes']['p'].get_schema()['port']
print('composer override after merging another override into one generated composite:', held)
print('defaults of a composite generated afterwards: x=%r y=%r (declared by the composer: x=7, y untouched=1)'
      % (later['x']['_default'], later['y']['_default']))
sys.exit(0 if held == cfg['_schema'] and (later['x']['_default'], later['y']['_default']) == (7, 1) else 1)
