"""Witness F-C12-sametime (KNOWN FINDING, not repaired): a caller-managed run_for() leaves a slow process deferred
behind the global time at a time T for which a history row was already emitted; closing the loop with update(0)
completes that process AT T and emits a second row for the same time T (time keys not strictly increasing). The
RAM emitter refuses the second row when the values differ: update(0) raises ValueError.
Exit 1 while the defect is present."""
import sys
from vivarium.core.process import Process
from vivarium.core.engine import Engine


class Acc(Process):
    defaults = {'timestep': 1.0}

    def ports_schema(self):
        return {'s': {'x_' + self.parameters['n']: {'_default': 0.0, '_updater': 'accumulate', '_emit': True}}}

    def next_update(self, timestep, states):
        return {'s': {'x_' + self.parameters['n']: timestep}}


e = Engine(processes={'slow': Acc({'timestep': 2.0, 'n': 'slow'}), 'fast': Acc({'timestep': 0.25, 'n': 'fast'})},
           topology={'slow': {'s': ('s',)}, 'fast': {'s': ('s',)}}, display_info=False, progress_bar=False)
seen = []
orig = e._emit_store_data


def spy():
    seen.append(e.global_time)
    orig()


e._emit_store_data = spy
bad = False
try:
    e.run_for(3)        # 'slow' wants [2, 4]: deferred; 'fast' is applied at 3 and a row for time 3 is emitted
    e.update(0)         # forced completion at 3: 'slow' simulates [2, 3], applied at 3, second row for time 3
except ValueError as exc:
    print('raised', str(exc)[:120])
    bad = True
dups = sorted({t for t in seen if seen.count(t) > 1})
print('emit times', seen[-4:], 'duplicates', dups)
sys.exit(1 if (bad or dups) else 0)
