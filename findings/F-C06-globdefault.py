"""Witness F-C06-globdefault: for a glob port whose '*' sub-topology is a dictionary (own '_path',
one variable remapped), a variable the dictionary does not mention is read through the default wiring
(child/variable) -- its updates must reach that same node instead of being dropped."""
import sys
from vivarium.core.process import Process
from vivarium.core.engine import Engine

class Owner(Process):
    def ports_schema(self):
        return {'boundary': {'m': {'_default': 1.0}}, 'own': {'g': {'_default': 2.0}}}
    def next_update(self, timestep, states):
        return {}

class Feeder(Process):
    defaults = {'timestep': 1.0}
    def ports_schema(self):
        return {'cells': {'*': {'m': {'_default': 1.0}, 'g': {'_default': 2.0}}}}
    def next_update(self, timestep, states):
        self.parameters['seen'].append(states)
        return {'cells': {k: {'m': 10.0, 'g': 100.0} for k in states['cells']}}

seen = []
e = Engine(processes={'feeder': Feeder({'seen': seen}), 'colony': {'cells': {'c1': {'owner': Owner()}}}},
           topology={'feeder': {'cells': {'*': {'_path': ('colony', 'cells'), 'm': ('boundary', 'm')}}},
                     'colony': {'cells': {'c1': {'owner': {'boundary': ('boundary',), 'own': ()}}}}},
           display_info=False)
e.update(1)
c1 = e.state.get_value()['colony']['cells']['c1']
print('read', seen[0], 'after', {k: v for k, v in c1.items() if k != 'owner'})
ok = seen[0] == {'cells': {'c1': {'m': 1.0, 'g': 2.0}}} and c1['boundary']['m'] == 11.0 and c1['g'] == 102.0
sys.exit(0 if ok else 1)
