"""Witness F-C19-timeline: events fire once, on time, in any listing order,
however many fall due in one tick; equal times merge (later listing wins)."""
import sys, itertools
from vivarium.processes.timeline import TimelineProcess

def run(events, dt, ticks):
    """Drive the process by hand: returns list of (clock, {var: value}) per tick."""
    p = TimelineProcess({'timeline': events, 'time_step': dt})
    p.ports_schema()
    clock, out = 0, []
    for _ in range(ticks):
        up = p.next_update(dt, {'global': {'time': clock}})
        sets = {k: v['_value'] for k, v in up.get('s', {}).items()}
        out.append((clock, sets))
        clock += up['global']['time']
    return out

def expected(events, dt, ticks):
    out, fired = [], set()
    clock = 0
    for _ in range(ticks):
        due = sorted([(t, i) for i, (t, ch) in enumerate(events) if t <= clock and i not in fired])
        sets = {}
        for t, i in due:
            fired.add(i)
            for path, v in events[i][1].items():
                sets[path[1]] = v
        out.append((clock, sets))
        clock += dt
    return out

bad = []
base = [(0, {('s', 'a'): 1}), (10, {('s', 'a'): 2}), (5, {('s', 'b'): [3]}), (5, {('s', 'b'): [4], ('s', 'c'): 7}), (6, {('s', 'a'): 9})]
for n in (2, 3, 4):
    for ev in itertools.permutations(base, n):
        # equal-time events: listing order decides, so keep their relative order fixed
        for dt in (1, 4, 20):
            import copy
            e1, e2 = copy.deepcopy(list(ev)), copy.deepcopy(list(ev))
            got, want = run(e1, dt, 6), expected(e2, dt, 6)
            if got != want:
                bad.append((ev, dt, got, want))
print('failing cases:', len(bad))
if bad:
    print(bad[0])
sys.exit(1 if bad else 0)
