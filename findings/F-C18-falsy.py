"""Witness F-C18-falsy: a query must return falsy emitted values too."""
import sys
from vivarium.core.emitter import RAMEmitter
em = RAMEmitter({})
for t, v in [(0.0, 0), (1.0, False), (2.0, ''), (3.0, []), (4.0, 5)]:
    em.emit({'table': 'history', 'data': {'time': t, 'a': {'x': v, 'y': 1}}})
got = em.get_data([('a', 'x')])
want = {0.0: {'a': {'x': 0}}, 1.0: {'a': {'x': False}}, 2.0: {'a': {'x': ''}},
        3.0: {'a': {'x': []}}, 4.0: {'a': {'x': 5}}}
print(got)
sys.exit(0 if got == want else 1)
