"""Witness F-C08-merge: the merge updater must keep keys the update does not
mention, add new keys, deep-merge shared dict values and leave its arguments
unchanged.  Exit 1 if the defect is present."""
import copy, sys
from vivarium.core.registry import update_merge
cur = {'a': 1, 'b': {'x': 1}}
new = {'b': {'y': 2}, 'c': 3}
cur0, new0 = copy.deepcopy(cur), copy.deepcopy(new)
out = update_merge(cur, new)
ok = out == {'a': 1, 'b': {'x': 1, 'y': 2}, 'c': 3} and cur == cur0 and new == new0
print('update_merge ->', out)
sys.exit(0 if ok else 1)
