"""Witness F-C05-nestedflow (repaired): a branch added with _generate whose steps are nested one level deeper, with a
nested flow {'sub': {'B': [('A',)], 'A': []}}: Store.insert reported the flow one level deep, the engine found no flow
entry per step and ran them as legacy sequential steps in declaration order (B before its dependency A).
Exit 1 while the defect is present."""
import sys
from vivarium.core.engine import Engine
from vivarium.core.process import Process, Step
ORDER = []
class A(Step):
    def ports_schema(self):
        return {'x': {'_default': 1}, 'y': {'_default': 0, '_updater': 'set'}}
    def next_update(self, timestep, states):
        ORDER.append('A'); return {'y': states['x'] + 1}
class B(Step):
    def ports_schema(self):
        return {'y': {'_default': 0}, 'z': {'_default': 0, '_updater': 'set'}}
    def next_update(self, timestep, states):
        ORDER.append('B'); return {'z': 10 * states['y']}
class Gen(Process):
    defaults = {'timestep': 1.0}
    done = False
    def ports_schema(self):
        return {'agents': {'*': {}}}
    def next_update(self, timestep, states):
        if self.done: return {}
        self.done = True
        return {'agents': {'_generate': [{
            'key': 'n',
            'processes': {},
            'steps': {'sub': {'B': B(), 'A': A()}},
            'flow': {'sub': {'B': [('A',)], 'A': []}},
            'topology': {'sub': {
                'A': {'x': ('x',), 'y': ('y',)},
                'B': {'y': ('y',), 'z': ('z',)}}},
            'initial_state': {},
        }]}}
e = Engine(processes={'agents': {'m': {'gen': Gen()}}},
           topology={'agents': {'m': {'gen': {'agents': ('..',)}}}},
           emitter='null', display_info=False)
e.run_for(1.0)   # generates
print("after generation batch:", ORDER, {k: v for k, v in e.state.get_value()["agents"]["n"]["sub"].items() if k in "xyz"}); ORDER.clear()
e.run_for(1.0)   # first phase in which the new steps run
print('order in phase:', ORDER)
sub = e.state.get_value()['agents']['n']['sub']
bad = ORDER != ['A', 'B'] or sub['z'] != 10 * sub['y']
print('layers:', list(e._step_graph.get_execution_layers()))
print(e.state.get_value()['agents']['n'])

sys.exit(1 if bad else 0)
