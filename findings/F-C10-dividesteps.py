"""Witness F-C10-dividesteps: when a compartment divides and the daughters do not list processes, they
inherit the mother's processes AND steps; the published flow must describe steps that exist."""
import sys
from vivarium.core.process import Process, Step
from vivarium.core.engine import Engine

LOG = []

class S(Step):
    def ports_schema(self):
        return {'s': {'x': {'_default': 0, '_divider': 'split'}}}
    def next_update(self, timestep, states):
        LOG.append(self.parameters['name'])
        return {}

class P(Process):
    defaults = {'timestep': 1.0}
    def ports_schema(self):
        return {'s': {'x': {'_default': 0, '_divider': 'split'}}}
    def next_update(self, timestep, states):
        return {'s': {'x': 1}}

class Div(Process):
    defaults = {'timestep': 1.0}
    def ports_schema(self):
        return {'agents': {'*': {'s': {'x': {'_default': 0, '_divider': 'split'}}}}}
    def next_update(self, timestep, states):
        if 'm' in states['agents']:
            return {'agents': {'_divide': {'mother': 'm', 'daughters': [{'key': 'd1'}, {'key': 'd2'}]}}}
        return {}

port = {'s': ('s',)}
e = Engine(processes={'div': Div(), 'agents': {'m': {'p': P()}}},
           steps={'agents': {'m': {'s1': S({'name': 's1'}), 's2': S({'name': 's2'})}}},
           flow={'agents': {'m': {'s1': [], 's2': [('s1',)]}}},
           topology={'div': {'agents': ('agents',)}, 'agents': {'m': {'p': port, 's1': port, 's2': port}}},
           initial_state={'agents': {'m': {'s': {'x': 8}}}}, display_info=False)
e.update(1)
del LOG[:]
e.update(1)
steps = e.state.get_steps() or {}
flow = e.state.get_flow() or {}
print('steps in hierarchy:', {k: sorted(v) for k, v in steps.get('agents', {}).items()}, 'published flow:', e.flow, 'step log:', LOG)
ok = sorted(steps.get('agents', {})) == ['d1', 'd2'] and e.flow.get('agents') == flow.get('agents') and LOG.count('s1') == 2 and LOG.count('s2') == 2
sys.exit(0 if ok else 1)
