"""Witness F-C14-nanounit: units whose name starts with 'nan' (nanometer, nanosecond, ...) must
round-trip; only a nan MAGNITUDE is special."""
import sys, math
from vivarium.core.serialize import serialize_value, deserialize_value
from vivarium.library.units import units
bad = []
for v in [units.nanometer, units.nanosecond, units.nanomolar, {'u': units.nanogram}, math.nan * units.nanometer, math.nan * units.fg]:
    try:
        d = deserialize_value(serialize_value(v))
    except Exception as e:
        bad.append((repr(v), type(e).__name__)); continue
    def same(a, b):
        if isinstance(a, dict):
            return all(same(a[k], b[k]) for k in a)
        qa, qb = 1 * a, 1 * b
        return qa.units == qb.units and (qa.magnitude == qb.magnitude or (math.isnan(qa.magnitude) and math.isnan(qb.magnitude)))
    if not same(v, d):
        bad.append((repr(v), repr(d)))
print('bad:', bad)
sys.exit(1 if bad else 0)
