"""Witness F-C10-orphan-dependents (KNOWN FINDING, not repaired): a process deletes the single flow step A; step B, which
depends on A, stays in the hierarchy and in engine._step_paths, but _StepGraph.remove took all descendants of A out of the
step graph, so B is never run again.  Exit 1 while the defect is present."""
import sys
from vivarium.core.engine import Engine
from vivarium.core.process import Process, Step
RUNS = {'A': 0, 'B': 0}
class S(Step):
    defaults = {'n': ''}
    def ports_schema(self):
        return {'v': {'_default': 0}}
    def next_update(self, timestep, states):
        RUNS[self.parameters['n']] += 1; return {}
class Del(Process):
    defaults = {'timestep': 1.0}
    done = False
    def ports_schema(self):
        return {'box': {'*': {}}}
    def next_update(self, timestep, states):
        if self.done: return {}
        self.done = True
        return {'box': {'_delete': ['A']}}
e = Engine(processes={'del': Del()},
           steps={'box': {'A': S({'n': 'A'}), 'B': S({'n': 'B'})}},
           flow={'box': {'A': [], 'B': [('A',)]}},
           topology={'del': {'box': ('box',)},
                     'box': {'A': {'v': ('v',)}, 'B': {'v': ('v',)}}},
           emitter='null', display_info=False)
print('after construction', RUNS)
e.run_for(1.0); print('after batch 1 (A deleted)', RUNS)
e.run_for(1.0); print('after batch 2', RUNS)
print('B still in store:', 'B' in e.state.get_value()['box'], ' B in engine._step_paths:', ('box','B') in e._step_paths)
print('layers:', list(e._step_graph.get_execution_layers()))

sys.exit(1 if RUNS['B'] < 3 else 0)
