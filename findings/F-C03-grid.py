"""Witness F-C03-grid: with global_time_precision p and timesteps on the 10^-p grid, every event
and emit time lies exactly on the grid, and coincident events share one time."""
import sys
from vivarium.core.process import Process
from vivarium.core.engine import Engine

class Tick(Process):
    defaults = {'timestep': 0.1}
    def ports_schema(self):
        return {'s': {'n_' + self.parameters['name']: {'_default': 0, '_emit': True}}}
    def next_update(self, timestep, states):
        return {'s': {'n_' + self.parameters['name']: 1}}

bad = []
def run(dts, calls, p):
    procs = {'p%d' % i: Tick({'name': 'p%d' % i, 'timestep': dt}) for i, dt in enumerate(dts)}
    topo = {k: {'s': ('s',)} for k in procs}
    e = Engine(processes=procs, topology=topo, global_time_precision=p, display_info=False)
    for c in calls:
        e.update(c)
    return list(e.emitter.get_data().keys()), e.global_time

for dts, calls, p in [([0.1], [0.1, 0.2], 5), ([0.1, 0.3, 0.7], [2], 1), ([0.1, 0.2], [0.3, 0.3, 0.3], 1),
                      ([0.01, 0.07], [0.5], 2)]:
    try:
        times, g = run(dts, calls, p)
    except Exception as exc:
        bad.append((dts, calls, 'raised %s: %s' % (type(exc).__name__, str(exc)[:80])))
        continue
    off = [t for t in times if round(t, p) != t]
    dup = [b for a, b in zip(times, times[1:]) if not b > a]
    if off or dup or round(g, p) != g:
        bad.append((dts, calls, off[:3], dup[:3], g))
print('bad:', bad)
sys.exit(1 if bad else 0)
