"""Witness F-C06-shared-default (repaired): two children of a glob port get their variable from one schema default ({}); an _add through the dict_value
updater to one child also changed the other (same object).  Second case: a NESTED default ({'glc': {'count': 0}}) -- the children must not share the
inner dictionaries either, nor with the schema default that later children start from.  Exit 1 while the defect is present."""
import sys
from vivarium.core.store import Store
s=Store({'g': {'*': {'d': {'_default': {}, '_updater': 'dict_value'}}}})
s.set_value({'g': {'x': {}, 'y': {}}}); s.apply_defaults()
s.apply_update({'g': {'x': {'d': {'_add': [{'key': 'k', 'state': 1}]}}}})
v=s.get_value()['g']
print(v)
ok = v=={'x': {'d': {'k': 1}}, 'y': {'d': {}}}
n=Store({'g': {'*': {'pool': {'_default': {'glc': {'count': 0}}, '_updater': 'dict_value'}}}})
n.set_value({'g': {'a': {}, 'b': {}}}); n.apply_defaults()
n.apply_update({'g': {'a': {'pool': {'glc': {'count': 5}}}}})
n.apply_update({'g': {'_add': [{'key': 'c', 'state': {}}]}})
w=n.get_value()['g']
print(w)
ok = ok and w=={'a': {'pool': {'glc': {'count': 5}}}, 'b': {'pool': {'glc': {'count': 0}}}, 'c': {'pool': {'glc': {'count': 0}}}}
sys.exit(0 if ok else 1)
