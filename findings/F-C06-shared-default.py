"""Witness F-C06-shared-default (repaired): two children of a glob port get their variable from one schema default ({}); an _add through the dict_value
updater to one child also changed the other (same object).  Exit 1 while the defect is present."""
import sys
from vivarium.core.store import Store
s=Store({'g': {'*': {'d': {'_default': {}, '_updater': 'dict_value'}}}})
s.set_value({'g': {'x': {}, 'y': {}}}); s.apply_defaults()
s.apply_update({'g': {'x': {'d': {'_add': [{'key': 'k', 'state': 1}]}}}})
v=s.get_value()['g']
print(v)
sys.exit(0 if v=={'x': {'d': {'k': 1}}, 'y': {'d': {}}} else 1)
