"""Witness F-C08-update-alias (repaired): deep_merge_multi_update kept the nested dictionaries of the first port's update by reference and merged the second
port's update into them: the update object the process returned (and returns again) grew _multi_update lists.
Exit 1 while the defect is present."""
import sys, copy
from vivarium.core.engine import Engine
from vivarium.core.process import Process
class P(Process):
    defaults={'timestep':1.0}
    def __init__(self, parameters=None):
        super().__init__(parameters)
        self.cached={'A': {'sub': {'x': 1}, 'deep': {'er': {'z': 1}}}, 'B': {'sub': {'x': 1}, 'deep': {'er': {'z': 2}}}}
    def ports_schema(self):
        port = {'sub': {'x': {'_default': 0}}, 'deep': {'er': {'z': {'_default': 0}}}}
        import copy as _c
        return {'A': _c.deepcopy(port), 'B': _c.deepcopy(port)}
    def next_update(self, t, states): return self.cached
p=P()
before=copy.deepcopy(p.cached)
e=Engine(processes={'p':p}, topology={'p': {'A': ('s',), 'B': ('s',)}}, display_info=False, emitter='null')
for _ in range(3): e.update(1)
x=e.state.get_value()['s']['sub']['x']
z=e.state.get_value()['s']['deep']['er']['z']
print('x', x, 'cached update now', p.cached)
print('z', z)
sys.exit(0 if x==6 and z==9 and p.cached==before else 1)
