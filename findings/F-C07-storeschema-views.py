"""Witness F-C07-storeschema-views: Engine(store_schema=...) is applied to the hierarchy AFTER the topology views were built and the
views were not rebuilt: a child that store_schema adds under a store a process reads through a glob port is in the hierarchy
(and in the emitted rows) from the start, but the process is not shown it until some later structural update.
Exit 1 while the defect is present."""
import sys
from vivarium.core.engine import Engine
from vivarium.core.process import Process

SEEN = []


class Watcher(Process):
    defaults = {'timestep': 1.0}

    def ports_schema(self):
        return {'pool': {'*': {'_default': 0.0, '_emit': True}}}

    def next_update(self, timestep, states):
        SEEN.append(dict(states['pool']))
        return {'pool': {k: 1.0 for k in states['pool']}}


eng = Engine(processes={'w': Watcher()}, topology={'w': {'pool': ('pool',)}}, initial_state={'pool': {'a': 0.0}},
             store_schema={'pool': {'b': {'_default': 10.0, '_value': 10.0}}}, display_info=False, emitter='null')
held = dict(eng.state.get_value()['pool'])
eng.update(2)
print('the hierarchy held', held, 'at construction; the watcher was shown', SEEN)
print('pool after 2 ticks:', eng.state.get_value()['pool'])
sys.exit(0 if SEEN and set(SEEN[0]) == set(held) and eng.state.get_value()['pool'] == {'a': 2.0, 'b': 12.0} else 1)
