"""Witness F-C16-schema-alias (repaired): Process.__init__ kept the caller's '_schema' dictionary as its override and merge_overrides() merged into it in
place: an override naming process a1 also reached a2 (built from the same dictionary).  Exit 1 while the defect is present."""
import sys
from vivarium.core.composer import Composite
from vivarium.core.engine import Engine
from vivarium.core.process import Process
class A(Process):
    defaults={'timestep':1.0}
    def ports_schema(self): return {'s': {'x': {'_default': 1}}}
    def next_update(self, t, states): return {}
shared={'s': {'x': {'_default': 5}}}
a1=A({'_schema': shared}); a2=A({'_schema': shared})
c=Composite({'processes': {'a1': a1, 'a2': a2}, 'topology': {'a1': {'s': ('s1',)}, 'a2': {'s': ('s2',)}},
             '_schema': {'a1': {'s': {'x': {'_default': 9}}}}})
e=Engine(composite=c, display_info=False, emitter='null')
v=e.state.get_value()
print(v['s1'], v['s2'], shared)
sys.exit(0 if (v['s1']=={'x':9} and v['s2']=={'x':5} and shared=={'s': {'x': {'_default': 5}}}) else 1)
