"""Witness F-C02-trunc: under forced completion the last interval is cut
short and the process must be handed the remainder, not its full timestep."""
import sys
from vivarium.core.process import Process
from vivarium.core.engine import Engine

class Clock(Process):
    defaults = {'timestep': 3.0}
    def ports_schema(self):
        return {'g': {'t': {'_default': 0.0, '_emit': True}}}
    def next_update(self, timestep, states):
        self.parameters['seen'].append(timestep)
        return {'g': {'t': timestep}}

bad = []
for dt, T in [(3.0, 10), (0.75, 1.0), (4.0, 3.0), (1.0, 2.0)]:
    seen = []
    e = Engine(processes={'c': Clock({'timestep': dt, 'seen': seen})},
               topology={'c': {'g': ('g',)}}, display_info=False)
    e.update(T)
    clock = e.state.get_value()['g']['t']
    print(dt, T, 'clock', clock, 'global', e.global_time, 'timesteps', seen)
    if abs(clock - e.global_time) > 1e-9 or abs(sum(seen) - T) > 1e-9:
        bad.append((dt, T))
sys.exit(1 if bad else 0)
