"""Contract for RAMEmitter.emit (C12): rows are keyed by time; a row emitted for a time that already has one is merged into it
when it agrees with it everywhere and refused otherwise."""
from pyvc.spec import contract, external, ghost, model_class, bound_types
from specs.lib_path import *   # noqa: F401,F403
from specs.c_dicts import *    # noqa: F401,F403  (merged, compat)

EM = 'vivarium.core.emitter:'
import pyvc.spec as _S
import specs.c_emitter  # noqa: F401  (model_class RAMEmitter)
_S.CLASSES['RAMEmitter'].fields.update({'embed_path': 'Path', 'fallback_serializer': 'Val'})

external('vivarium.core.serialize:serialize_value', types={'value': 'Tree', 'fallback': 'Val', 'ret': 'Tree'},
         ensures=['ret == value'],
         why_trusted='orjson round trip with the registered serializers: on the value model (plain data) it is the identity; what it '
                     'does to quantities, arrays and custom objects is what the bounded C14 / C12 drivers check')

@ghost()
def row_of(m: 'Map[Real,Tree]', t: 'Real') -> 'Tree':
    """the row stored for time t, an empty row if there is none yet"""
    if has(m, t):
        return lookup(m, t)
    return EMPTY_NODE


T_ = "number_of(child(child(data, 'data'), 'time'))"
NEW_ = "tset(EMPTY_NODE, self.embed_path, tree_remove(child(data, 'data'), 'time'))"
HIST = "data['table'] == 'history'"

contract(EM + 'RAMEmitter.emit', props=['C12'],
         types={'data': 'Tree', 'emit_data': 'Tree', 'time': 'Real', 'data_at_time': 'Tree', 't': 'Real'},
         requires=['is_node(data)', "has(data, 'table')", "has(data, 'data')", "is_node(child(data, 'data'))",
                   "has(child(data, 'data'), 'time')", "is_number(child(child(data, 'data'), 'time'))",
                   'len(self.embed_path) >= 1', 'settable(EMPTY_NODE, self.embed_path)',
                   # representation invariant of the table: every stored row is a dictionary
                   'forall(lambda t: implies(has(self.saved_data, t), is_node(lookup(self.saved_data, t))))'],
         modifies=['self.saved_data'],
         # a row for a time that already has one is refused exactly when the two disagree somewhere
         raises={'when': '%s and not compat(row_of(self.saved_data, %s), %s)' % (HIST, T_, NEW_)},
         ensures=['implies(not (%s), self.saved_data == old(self.saved_data))' % HIST,
                  # the row of that time becomes the union of what was stored and what is emitted now (at embed_path) ...
                  'implies(%s, has(self.saved_data, %s) and merged(lookup(self.saved_data, %s), row_of(old(self.saved_data), %s), %s))'
                  % (HIST, T_, T_, T_, NEW_),
                  # ... and no other row is touched
                  'implies(%s, forall(lambda t: implies(t != %s, has(self.saved_data, t) == has(old(self.saved_data), t) and '
                  'lookup(self.saved_data, t) == lookup(old(self.saved_data), t))))' % (HIST, T_),
                  'forall(lambda t: implies(has(self.saved_data, t), is_node(lookup(self.saved_data, t))))'])
