"""Contracts for vivarium/library/topology.py and the path helpers of engine.py / process.py."""
from pyvc.spec import contract, external
from specs.lib_path import *   # noqa: F401,F403  (ghost vocabulary)

contract('vivarium.library.topology:normalize_path',
         props=['C17', 'C06', 'C05'], pure=True,
         types={'path': 'Path', 'progress': 'Seq[Atom]', 'step': 'Atom', 'ret': 'Path'},
         ensures=['ret == norm(path, len(path))'],
         loops={0: {'invariant': ['progress == norm(path, _i)']}})

contract('vivarium.core.engine:starts_with',
         props=['C10', 'C17'], pure=True,
         types={'a_list': 'Path', 'sub': 'Path', 'ret': 'Bool', 'j': 'Int'},
         ensures=['ret == (len(sub) <= len(a_list) and forall_range(0, len(sub), lambda j: a_list[j] == sub[j]))'])

contract('vivarium.library.topology:get_in',
         props=['C17', 'C18', 'C06'], pure=True,
         types={'d': 'Tree', 'path': 'Path', 'default': 'Tree', 'ret': 'Tree', 'head': 'Atom'},
         requires=['dicts_along(d, path)'],
         ensures=['ret == tget(d, path, default)'],
         decreases='len(path)')

contract('vivarium.library.topology:delete_in',
         props=['C17', 'C10'], pure=True,
         types={'d': 'Tree', 'path': 'Path', 'head': 'Atom'},
         requires=['dicts_along(d, path)'],
         mutates=['d'],
         ensures=['d == tdel(old(d), path)'],
         decreases='len(path)')

contract('vivarium.library.topology:assoc_path',
         props=['C17', 'C10', 'C06'], pure=True,
         types={'d': 'Tree', 'path': 'Path', 'value': 'Tree', 'ret': 'Tree', 'head': 'Atom'},
         requires=['len(path) >= 1', 'is_node(d)', 'settable(d, path)'],
         mutates=['d'],
         ensures=['d == tset(old(d), path, value)', 'ret == d'],
         decreases='len(path)',
         note='the empty-path case (deep_merge of a dict value into d) is specified with deep_merge: see assoc_path[root]')

contract('vivarium.library.topology:update_in',
         props=['C17', 'C06'],
         types={'d': 'Tree', 'path': 'Path', 'f': 'Fun[Tree->Tree]', 'ret': 'Tree', 'head': 'Atom', 'updated': 'Tree'},
         requires=['walkable(d, path)'],
         mutates=['d'],
         ensures=['ret == tupd(old(d), path, f(tsub(old(d), path)))',    # only the addressed subtree differs
                  'd == tmk(old(d), path)'],                              # the documented setdefault on the input
         decreases='len(path)')
