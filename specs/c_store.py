"""Contracts for the navigation helpers of vivarium/core/store.py (C17)."""
from pyvc.spec import contract, external, model_class, bound_types
bound_types(s='Ref[Store]')
from specs.lib_path import *   # noqa: F401,F403

ST = 'vivarium.core.store:'
# g_abs: ghost = the absolute path of the node (what path_for returns)
import pyvc.spec as _S
_S.CLASSES['Store'].ghost['g_abs'] = 'Path'

external(ST + 'Store.path_for', types={'ret': 'Path'},
         ensures=['ret == self.g_abs'],
         why_trusted='recursion over Store.outer with key_for_value (object graph): bounded-checked by the C17 driver '
                     '(root.get_path(n.path_for()) is n)')

contract(ST + 'Store.path_to', props=['C17'],
         types={'to': 'Ref[Store]', 'self_path': 'Path', 'to_path': 'Path', 'path': 'Seq[Atom]', 'ret': 'Path', 'g_k': 'Int',
                'i': 'Int'},
         ensures=[
             # ret = one '..' per remaining element of self's path after the longest common prefix, then the rest of to's path
             '0 <= g_k and g_k <= len(self.g_abs) and g_k <= len(to.g_abs)',
             'forall_range(0, g_k, lambda i: self.g_abs[i] == to.g_abs[i])',
             'g_k == len(self.g_abs) or g_k == len(to.g_abs) or self.g_abs[g_k] != to.g_abs[g_k]',
             'len(ret) == (len(self.g_abs) - g_k) + (len(to.g_abs) - g_k)',
             "forall_range(0, len(self.g_abs) - g_k, lambda i: ret[i] == '..')",
             'forall_range(0, len(to.g_abs) - g_k, lambda i: ret[len(self.g_abs) - g_k + i] == to.g_abs[g_k + i])'],
         loops={0: {'invariant': [
             '0 <= g_k and g_k <= len(self.g_abs) and g_k <= len(to.g_abs)',
             'len(self_path) == len(self.g_abs) - g_k', 'len(to_path) == len(to.g_abs) - g_k',
             'forall_range(0, len(self_path), lambda i: self_path[i] == self.g_abs[i + g_k])',
             'forall_range(0, len(to_path), lambda i: to_path[i] == to.g_abs[i + g_k])',
             'forall_range(0, g_k, lambda i: self.g_abs[i] == to.g_abs[i])']}},
         ghost={'to_path = to.path_for()': {'after': ['g_k = 0']},
                'to_path = to_path[1:]': {'after': ['g_k = g_k + 1']}})

# ---- C09: structural primitives on the Store heap ------------------------------------------------------------------
_S.CLASSES['Store'].fields.update({'inner': 'Map[Atom,Ref[Store]]', 'outer': 'Opt[Ref[Store]]'})

external(ST + 'Store._establish_path', types={'path': 'Path', 'config': 'Tree', 'ret': 'Ref[Store]'},
         modifies=['Store.inner', 'Store.outer', 'Store.value'], alloc=True,
         why_trusted='schema-driven construction (bounded-checked under C09/C15)')
external(ST + 'Store._apply_subschema_path', types={'path': 'Path'}, modifies=['Store.inner', 'Store.outer', 'Store.value'],
         alloc=True, why_trusted='schema-driven construction (bounded-checked under C09/C15)')
external(ST + 'Store.apply_defaults', types={}, modifies=['Store.value'], why_trusted='bounded-checked under C15')
external(ST + 'Store.set_value', types={'value': 'Tree'}, modifies=['Store.value', 'Store.inner', 'Store.outer'], alloc=True,
         why_trusted='bounded-checked under C15')
external('uuid:uuid1', params=[], types={'ret': 'Val'}, why_trusted='standard library')

contract(ST + 'Store.add', props=['C09'],
         types={'added': 'Rec{key:Atom,state:Tree}', 'key': 'Atom', 'path': 'Path',
                'added_state': 'Tree', 'target': 'Ref[Store]'},
         modifies=['Store.inner', 'Store.outer', 'Store.value'], alloc=True,
         raises={'when': "has(self.inner, added['key'])"},          # adding an existing key is rejected -- and only then
         abstract=["path = (str(uuid.uuid1()),)"],
         note="everything after the rejection test is schema-driven construction (trusted externals)")

external(ST + 'Store.get_path', types={'path': 'Path', 'ret': 'Ref[Store]'}, ensures=['allocated(ret)'],
         why_trusted='Store navigation: bounded-checked by the C17 driver')
external(ST + 'Store.recursive_end_process', types={'value': 'Ref[Store]'}, modifies=['Process.g_pending'],
         why_trusted='ends parallel processes below the deleted node (C13)')

contract(ST + 'Store._delete_path', props=['C09'],
         types={'path': 'Path', 'target': 'Ref[Store]', 'remove': 'Atom', 'lost': 'Ref[Store]', 'ret': 'Opt[Ref[Store]]'},
         requires=['len(path) >= 1'],
         modifies=['Store.inner', 'Process.g_pending'],
         ensures=[
             # exactly one node loses exactly one child (the named one); every other node keeps all its children
             'forall(lambda s: implies(is_none(ret), s.inner == old(s.inner)))',
             'implies(not is_none(ret), exists(lambda s: s.inner == map_remove(old(s.inner), path[len(path) - 1]) and '
             'has(old(s.inner), path[len(path) - 1]) and lookup(old(s.inner), path[len(path) - 1]) == some(ret) and '
             "unchanged_except('Store', s, 'inner')))"],
         note='the empty-path case (clearing the node itself) is excluded by the precondition: structural updates always name a child')
