"""Contracts for the navigation helpers of vivarium/core/store.py (C17)."""
from pyvc.spec import contract, external, model_class, bound_types
from specs.lib_path import *   # noqa: F401,F403

ST = 'vivarium.core.store:'
# g_abs: ghost = the absolute path of the node (what path_for returns)
import pyvc.spec as _S
_S.CLASSES['Store'].ghost['g_abs'] = 'Path'

external(ST + 'Store.path_for', types={'ret': 'Path'},
         ensures=['ret == self.g_abs'],
         why_trusted='recursion over Store.outer with key_for_value (object graph): bounded-checked by the C17 driver '
                     '(root.get_path(n.path_for()) is n)')

contract(ST + 'Store.path_to', props=['C17'],
         types={'to': 'Ref[Store]', 'self_path': 'Path', 'to_path': 'Path', 'path': 'Seq[Atom]', 'ret': 'Path', 'g_k': 'Int',
                'i': 'Int'},
         ensures=[
             # ret = one '..' per remaining element of self's path after the longest common prefix, then the rest of to's path
             '0 <= g_k and g_k <= len(self.g_abs) and g_k <= len(to.g_abs)',
             'forall_range(0, g_k, lambda i: self.g_abs[i] == to.g_abs[i])',
             'g_k == len(self.g_abs) or g_k == len(to.g_abs) or self.g_abs[g_k] != to.g_abs[g_k]',
             'len(ret) == (len(self.g_abs) - g_k) + (len(to.g_abs) - g_k)',
             "forall_range(0, len(self.g_abs) - g_k, lambda i: ret[i] == '..')",
             'forall_range(0, len(to.g_abs) - g_k, lambda i: ret[len(self.g_abs) - g_k + i] == to.g_abs[g_k + i])'],
         loops={0: {'invariant': [
             '0 <= g_k and g_k <= len(self.g_abs) and g_k <= len(to.g_abs)',
             'len(self_path) == len(self.g_abs) - g_k', 'len(to_path) == len(to.g_abs) - g_k',
             'forall_range(0, len(self_path), lambda i: self_path[i] == self.g_abs[i + g_k])',
             'forall_range(0, len(to_path), lambda i: to_path[i] == to.g_abs[i + g_k])',
             'forall_range(0, g_k, lambda i: self.g_abs[i] == to.g_abs[i])']}},
         ghost={'to_path = to.path_for()': {'after': ['g_k = 0']},
                'to_path = to_path[1:]': {'after': ['g_k = g_k + 1']}})
