"""Contracts for the query view of the RAM emitter (C18) and paths_to_dict."""
from pyvc.spec import contract, external, ghost, model_class, bound_types
from specs.lib_path import *   # noqa: F401,F403

bound_types(t='Real', i='Int')


def is_identity(f):
    return all(f(x) == x for x in (0, 'a', None, (1,)))


@ghost(decreases='i')
def pfold(pl: 'Seq[Tup[Path,Tree]]', i: 'Int') -> 'Tree':
    """the dictionary built by assoc_path from the first i (path, value) pairs"""
    if i <= 0:
        return EMPTY_NODE
    return tset(pfold(pl, i - 1), pl[i - 1][0], pl[i - 1][1])


def PAIRS_OK(pl):
    """every pair can be inserted: non-empty path that does not run through a leaf written earlier"""
    return ("forall_range(0, len(%s), lambda i: len(%s[i][0]) >= 1 and settable(pfold(%s, i), %s[i][0]))" % (pl, pl, pl, pl))


@ghost(decreases='i')
def qpairs(data: 'Tree', query: 'Seq[Path]', i: 'Int') -> 'Seq[Tup[Path,Tree]]':
    """the (path, value) pairs a query selects from ONE emitted row: the queried paths that are present"""
    if i <= 0:
        return ()
    if tget(data, query[i - 1], leaf_none()) is not None:
        return qpairs(data, query, i - 1) + ((query[i - 1], tget(data, query[i - 1], leaf_none())),)
    return qpairs(data, query, i - 1)


contract('vivarium.library.topology:paths_to_dict', props=['C18', 'C17'],
         types={'path_list': 'Seq[Tup[Path,Tree]]', 'f': 'Fun[Tree->Tree]', 'd': 'Tree', 'path': 'Path', 'node': 'Tree',
                'ret': 'Tree'},
         requires=['is_identity(f)', PAIRS_OK('path_list')],
         ensures=['ret == pfold(path_list, len(path_list))'],
         loops={0: {'invariant': ['d == pfold(path_list, _i)', 'is_node(d)']}})

model_class('RAMEmitter', fields={'saved_data': 'Map[Real,Tree]'})

contract('vivarium.core.emitter:RAMEmitter.get_data', props=['C18'],
         types={'query': 'Opt[Seq[Path]]', 'returned_data': 'Map[Real,Tree]', 'data': 'Tree', 'paths_data': 'Seq[Tup[Path,Tree]]',
                'path': 'Path', 'datum': 'Tree', 'path_data': 'Tup[Path,Tree]', 'ret': 'Map[Real,Tree]', 't': 'Real'},
         requires=['implies(not is_none(query), forall(lambda t: implies(has(self.saved_data, t), '
                   'forall_range(0, len(some(query)), lambda i: dicts_along(lookup(self.saved_data, t), some(query)[i])) and '
                   + PAIRS_OK('qpairs(lookup(self.saved_data, t), some(query), len(some(query)))') + ')))'],
         ensures=[
             # without a query the saved rows are returned as they are
             'implies(is_none(query) or len(some(query)) == 0, ret == self.saved_data)',
             # with a query: one row per emitted time, built from exactly the queried paths present in THAT row
             'implies(not is_none(query) and len(some(query)) > 0, forall(lambda t: has(ret, t) == has(self.saved_data, t)))',
             'implies(not is_none(query) and len(some(query)) > 0, forall(lambda t: implies(has(self.saved_data, t), '
             'lookup(ret, t) == pfold(qpairs(lookup(self.saved_data, t), some(query), len(some(query))), '
             'len(qpairs(lookup(self.saved_data, t), some(query), len(some(query)))))))) '],
         loops={
             0: {'invariant': [
                 'forall(lambda t: has(returned_data, t) == (t in _done))',
                 'forall(lambda t: implies(t in _done, lookup(returned_data, t) == '
                 'pfold(qpairs(lookup(self.saved_data, t), some(query), len(some(query))), '
                 'len(qpairs(lookup(self.saved_data, t), some(query), len(some(query))))))) ']},
             1: {'invariant': ['paths_data == qpairs(data, some(query), _i)']}})
