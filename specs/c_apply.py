"""C10 (and the result of C07's expiry chain): Engine.apply_update folds what Store.apply_update reports into the
engine's bookkeeping and the published composite, and hands the view-expiry flag through unchanged."""
from pyvc.spec import contract, external, ghost, bound_types
import pyvc.spec as _S
from specs.lib_path import *   # noqa: F401,F403
from specs.c_engine import PREFIX, FRONT_SHRINKS

E = 'vivarium.core.engine:'
ST = 'vivarium.core.store:'
bound_types(i='Int', j='Int', p='Path', dep='Path')

REPORT = ('Tup[Seq[Tup[Path,Tree]],Seq[Tup[Path,Ref[Process]]],Seq[Tup[Path,Ref[Process]]],Seq[Tup[Path,Tree]],'
          'Seq[Path],Bool]')
# ghost: what the last Store.apply_update on this root reported (set by its trusted contract)
_S.CLASSES['Store'].ghost['g_report'] = REPORT
_S.CLASSES['Process'].ghost = dict(getattr(_S.CLASSES['Process'], 'ghost', None) or {})
_S.CLASSES['Process'].ghost['g_is_step'] = 'Bool'
_S.CLASSES['_StepGraph'].ghost = dict(getattr(_S.CLASSES['_StepGraph'], 'ghost', None) or {})
_S.CLASSES['_StepGraph'].ghost['g_deps'] = 'Map[Path,Seq[Path]]'   # steps registered in the DAG, with their (absolute) dependencies
_S.CLASSES['_StepGraph'].ghost['g_seq'] = 'Map[Path,Bool]'          # steps registered as legacy sequential steps


@ghost(decreases='i')
def tfold(base: 'Tree', pl: 'Seq[Tup[Path,Tree]]', i: 'Int') -> 'Tree':
    """base with the first i (path, value) pairs written by assoc_path, in order"""
    if i <= 0:
        return base
    return tset(tfold(base, pl, i - 1), pl[i - 1][0], pl[i - 1][1])


@ghost(decreases='i')
def dfold(base: 'Tree', dl: 'Seq[Path]', i: 'Int') -> 'Tree':
    """base with the first i paths deleted, in order"""
    if i <= 0:
        return base
    return tdel(dfold(base, dl, i - 1), dl[i - 1])


@ghost(decreases='i')
def pfoldr(base: 'Tree', pl: 'Seq[Tup[Path,Ref[Process]]]', i: 'Int') -> 'Tree':
    """base with the first i reported (path, process) pairs written by assoc_path -- the parallelized objects"""
    if i <= 0:
        return base
    return tset(pfoldr(base, pl, i - 1), pl[i - 1][0], par_of(pl[i - 1][1]))


@ghost(opaque=True)
def par_of(p: 'Ref[Process]') -> 'Ref[Process]':
    """the object _parallelize_processes hands back for p (p itself, or its ParallelProcess wrapper)"""
    return p


external(ST + 'Store.apply_update', types={'update': 'Tree', 'state': 'Ref[Store]', 'ret': REPORT},
         modifies=['Store.value', 'Store.inner', 'Store.outer', 'Store.topology', 'Store.topology_view', 'Store.g_report',
                   'Process.g_pending'],
         alloc=True,
         ensures=['self.g_report == ret',
                  'forall_range(0, len(ret[2]), lambda i: ret[2][i][1].g_is_step)'],      # what it reports as steps are steps
         why_trusted='the Store side of an update (updaters, structural keys) is bounded-checked under C08/C09/C11; here only '
                     'its six-part report is named')
external(E + 'Engine._parallelize_processes', types={'processes': 'Ref[Process]', 'ret': 'Ref[Process]'},
         ensures=['ret == par_of(processes)', 'ret.g_is_step == processes.g_is_step'],
         why_trusted='wraps processes flagged parallel in a ParallelProcess (C13); modelled as a fixed function of the object')
external('vivarium.core.process:Process.is_step', types={'ret': 'Bool'}, ensures=['ret == self.g_is_step'],
         why_trusted='user-overridable predicate; ghost g_is_step names its answer')
external(E + '_StepGraph.add_sequential', types={'path': 'Path'}, modifies=['self._sequential_steps', 'self.g_seq'],
         ensures=[  # g_seq is the set of paths in the list: a path that is already queued keeps its place (fix F-C05-deriver-twice)
                  'implies(not has(old(self.g_seq), path), self._sequential_steps == old(self._sequential_steps) + (path,))',
                  'implies(has(old(self.g_seq), path), self._sequential_steps == old(self._sequential_steps))',
                  'self.g_seq == map_put(old(self.g_seq), path, True)'],
         why_trusted='list append (unless present) + validation of the networkx graph (bounded-checked under C05; the witness '
                     'F-C05-deriver-twice checks that a re-registered path is not queued twice)')
external(E + '_StepGraph.add', types={'path': 'Path', 'dependencies': 'Seq[Path]'}, modifies=['self.g_deps'],
         ensures=['self.g_deps == map_put(old(self.g_deps), path, dependencies)'],
         why_trusted='networkx graph surgery; the execution order is bounded-checked under C05')

contract(E + 'Engine._add_step_path', props=['C10', 'C05'],
         types={'step': 'Ref[Process]', 'path': 'Path', 'relative_dependencies': 'Opt[Seq[Path]]', 'dependencies': 'Seq[Path]',
                'norm_dependencies': 'Seq[Path]'},
         requires=['step.g_is_step'],
         modifies=['self._step_paths', '_StepGraph._sequential_steps', '_StepGraph.g_deps', '_StepGraph.g_seq'],
         ensures=['self._step_paths == map_put(old(self._step_paths), path, step)',
                  'implies(is_none(relative_dependencies), self._step_graph.g_seq == map_put(old(self._step_graph.g_seq), path, True))',
                  'implies(not is_none(relative_dependencies), self._step_graph.g_seq == old(self._step_graph.g_seq))',
                  # a step without a flow entry is a legacy sequential step; with one (even an empty list) it is in the DAG
                  'implies(is_none(relative_dependencies) and not has(old(self._step_graph.g_seq), path), '
                  'self._step_graph._sequential_steps == old(self._step_graph._sequential_steps) + (path,))',
                  'implies(is_none(relative_dependencies) and has(old(self._step_graph.g_seq), path), '
                  'self._step_graph._sequential_steps == old(self._step_graph._sequential_steps))',
                  'implies(is_none(relative_dependencies), self._step_graph.g_deps == old(self._step_graph.g_deps))',
                  'implies(not is_none(relative_dependencies), self._step_graph._sequential_steps == '
                  'old(self._step_graph._sequential_steps) and has(self._step_graph.g_deps, path))',
                  # C05: every dependency is read relative to the step's parent: norm(path + ('..',) + dep), none lost
                  'implies(not is_none(relative_dependencies), '
                  'len(lookup(self._step_graph.g_deps, path)) == len(some(relative_dependencies)) and '
                  'forall_range(0, len(some(relative_dependencies)), lambda i: lookup(self._step_graph.g_deps, path)[i] == '
                  "norm(path + ('..',) + some(relative_dependencies)[i], len(path) + 1 + len(some(relative_dependencies)[i]))))",
                  'implies(not is_none(relative_dependencies), forall(lambda p: implies(p != path, '
                  'has(self._step_graph.g_deps, p) == has(old(self._step_graph.g_deps), p) and '
                  'lookup(self._step_graph.g_deps, p) == lookup(old(self._step_graph.g_deps), p))))'])

contract(E + 'Engine._add_process_path', props=['C10', 'C09'],
         types={'process': 'Ref[Process]', 'path': 'Path', 'flow': 'Tree'},
         requires=['is_node(flow)', 'dicts_along(flow, path)'],
         modifies=['self.process_paths', 'self._step_paths', '_StepGraph._sequential_steps', '_StepGraph.g_deps', '_StepGraph.g_seq'],
         ensures=['implies(not process.g_is_step, self.process_paths == map_put(old(self.process_paths), path, process) and '
                  'self._step_paths == old(self._step_paths))',
                  'implies(process.g_is_step, self.process_paths == old(self.process_paths) and '
                  'self._step_paths == map_put(old(self._step_paths), path, process))'])


def SETTABLE(fold, pl):
    return ("forall_range(0, len(%s), lambda i: len(%s[i][0]) >= 1 and settable(%s, %s[i][0]))" % (pl, pl, fold, pl))


def REP(i):
    return 'self.state.g_report[%d]' % i


FULL_FRAME = ['self.front', 'self.process_paths', 'self._step_paths', 'self.g_version', 'self.g_views_valid', 'self.processes', 'self.steps',
              'self.topology', 'self.flow', 'Store.value', 'Store.inner', 'Store.outer', 'Store.topology',
              'Store.topology_view', 'Store.g_report', 'Process.g_pending', '_StepGraph._sequential_steps', '_StepGraph.g_deps',
              '_StepGraph.g_seq']

COMMON = dict(
         types={'update': 'Tree', 'state': 'Ref[Store]', 'ret': 'Bool',
                'topology_updates': 'Seq[Tup[Path,Tree]]', 'process_updates': 'Seq[Tup[Path,Ref[Process]]]',
                'step_updates': 'Seq[Tup[Path,Ref[Process]]]', 'flow_updates': 'Seq[Tup[Path,Tree]]', 'deletions': 'Seq[Path]',
                'view_expire': 'Bool', 'path': 'Path', 'process': 'Ref[Process]', 'step': 'Ref[Process]',
                'topology_update': 'Tree', 'flow_update': 'Tree', 'deletion': 'Path', 'dependencies': 'Opt[Seq[Path]]',
                'flow_update_dict': 'Map[Path,Tree]'},
         assumes=['is_node(self.topology)', 'is_node(self.flow)', 'is_node(self.processes)', 'is_node(self.steps)'],
         why_assumed='the published composite of an engine is four dictionaries: set by the constructor from the composite, '
                     'only ever changed by this function; not tracked through the invariants of run_for',
         alloc=True,
         modifies=FULL_FRAME,
         ghost={'topology_updates, process_updates, step_updates, flow_updates, deletions, view_expire = self.state.apply_update(': {'after': [
             'self.g_version = self.g_version + 1',
             'self.g_views_valid = self.g_views_valid and not view_expire',
             "assume_env(" + SETTABLE('tfold(self.topology, topology_updates, i)', 'topology_updates') + " and "
             + SETTABLE('tfold(self.flow, flow_updates, i)', 'flow_updates') + " and "
             + SETTABLE('pfoldr(self.processes, process_updates, i)', 'process_updates') + " and "
             + SETTABLE('pfoldr(self.steps, step_updates, i)', 'step_updates') + ", "
             "'paths reported by Store.apply_update are non-empty and do not run through a leaf of the published composite')",
             "assume_env(forall_range(0, len(deletions), lambda i: "
             "dicts_along(dfold(tfold(self.topology, topology_updates, len(topology_updates)), deletions, i), deletions[i]) and "
             "dicts_along(dfold(tfold(self.flow, flow_updates, len(flow_updates)), deletions, i), deletions[i]) and "
             "dicts_along(dfold(pfoldr(self.processes, process_updates, len(process_updates)), deletions, i), deletions[i]) and "
             "dicts_along(dfold(pfoldr(self.steps, step_updates, len(step_updates)), deletions, i), deletions[i])), "
             "'deleted paths do not run through a leaf of the published composite')",
         ]}},
         loops={
             2: {'invariant': ['is_node(self.topology)', 'self.topology == tfold(entry(self.topology), topology_updates, _i)']},
             3: {'invariant': ['is_node(self.flow)', 'self.flow == tfold(entry(self.flow), flow_updates, _i)']},
             4: {'invariant': ['is_node(self.processes)',
                               'self.processes == pfoldr(entry(self.processes), %s, _i)' % REP(1),
                               'forall_range(0, _i, lambda i: implies(not par_of(%s[i][1]).g_is_step, has(self.process_paths, %s[i][0])))'
                               % (REP(1), REP(1))]},
             5: {'invariant': ['is_node(self.steps)', 'self.steps == pfoldr(entry(self.steps), %s, _i)' % REP(2),
                               'forall_range(0, _i, lambda i: implies(not exists_range(0, len(%s), lambda j: %s[j][0] == %s[i][0]), '
                               'has(self._step_graph.g_seq, %s[i][0])))' % (REP(3), REP(3), REP(2), REP(2))]},
             6: {'invariant': ["forall(lambda p: implies(has(self.front, p), has(entry(self.front), p) and "
                               "lookup(self.front, p) == lookup(entry(self.front), p)))",
                               'self.topology == dfold(entry(self.topology), deletions, _i)',
                               'self.flow == dfold(entry(self.flow), deletions, _i)',
                               'self.processes == dfold(entry(self.processes), deletions, _i)',
                               'self.steps == dfold(entry(self.steps), deletions, _i)',
                               "forall(lambda p: has(self.process_paths, p) == (has(entry(self.process_paths), p) and not "
                               "exists_range(0, _i, lambda j: below(deletions[j], p))))"]}})

# (1) what the callers (run_for, _send_updates, run_steps) rely on: frame + meaning of the result.  Replaces the formerly
#     trusted contract of Engine.apply_update.
contract(E + 'Engine.apply_update', props=['C07', 'C01', 'C04', 'C05', 'C10'],
         ensures=['self.g_version >= old(self.g_version)',
                  'self.g_views_valid == (old(self.g_views_valid) and not ret)',
                  FRONT_SHRINKS,
                  # an empty update is a no-op that never expires the views; otherwise the flag of the Store is handed through
                  'implies(not update, not ret and self.process_paths == old(self.process_paths) and '
                  'self._step_paths == old(self._step_paths))',
                  'implies(bool(update), ret == %s)' % REP(5)],
         **COMMON)

# (2) C10: the bookkeeping itself
contract(E + 'Engine.apply_update#bookkeeping', props=['C10', 'C05'],
         ensures=[
             # an empty update is a no-op that never expires the views
             'implies(not update, not ret and self.topology == old(self.topology) and self.flow == old(self.flow) '
             'and self.process_paths == old(self.process_paths) and self.g_views_valid == old(self.g_views_valid))',
             # the expiry flag of the Store is handed through unchanged (C07: the callers rebuild the views iff it is set)
             'implies(bool(update), ret == %s)' % REP(5),
             'self.g_views_valid == (old(self.g_views_valid) and not ret)',
             'self.g_version >= old(self.g_version)',
             # C10: the published topology and flow are the old ones with EVERY reported entry written, in order, and then
             # every reported deletion removed
             'implies(bool(update), self.topology == dfold(tfold(old(self.topology), %s, len(%s)), %s, len(%s)))'
             % (REP(0), REP(0), REP(4), REP(4)),
             'implies(bool(update), self.flow == dfold(tfold(old(self.flow), %s, len(%s)), %s, len(%s)))'
             % (REP(3), REP(3), REP(4), REP(4)),
             # the scheduler knows every reported process that is not below a reported deletion
             'implies(bool(update), forall_range(0, len(%s), lambda i: implies('
             'not par_of(%s[i][1]).g_is_step and not exists_range(0, len(%s), lambda j: below(%s[j], %s[i][0])), '
             'has(self.process_paths, %s[i][0]))))' % (REP(1), REP(1), REP(4), REP(4), REP(1), REP(1)),
             # C05/C10: a reported step WITHOUT a reported flow entry is registered as a legacy sequential step, one WITH
             # a flow entry (even an empty list) in the dependency graph
             'implies(bool(update), forall_range(0, len(%s), lambda i: '
             'implies(not exists_range(0, len(%s), lambda j: %s[j][0] == %s[i][0]), has(self._step_graph.g_seq, %s[i][0]))))'
             % (REP(2), REP(3), REP(3), REP(2), REP(2)),
             # ... and forgets every process at or below a reported deletion
             'implies(bool(update), forall(lambda p: implies(exists_range(0, len(%s), lambda j: below(%s[j], p)), '
             'not has(self.process_paths, p))))' % (REP(4), REP(4))],
         **COMMON)


# ---- the engine's wrapper around inverse_topology: the WHOLE update a process returned is inverted (C01 / C06 / C08) -------
@ghost(opaque=True)
def inv_of(outer: 'Path', update: 'Tree', topology: 'Tree') -> 'Tree':
    """what inverse_topology makes of (outer, update, topology) -- uninterpreted here; bounded-checked by the topology driver"""
    return update


external('vivarium.library.topology:inverse_topology',
         types={'outer': 'Path', 'update': 'Tree', 'topology': 'Tree', 'inverse': 'Opt[Tree]', 'multi_updates': 'Bool', 'ret': 'Tree'},
         defaults={'inverse': None, 'multi_updates': True},
         ensures=['ret == inv_of(outer, update, topology)'],
         why_trusted='recursion with closures and in-place merges: outside the translated subset; read/write symmetry is '
                     'bounded-checked by the topology driver')

contract(E + 'invert_topology', props=['C01', 'C06', 'C08'],
         types={'update': 'Tree', 'args': 'Tup[Path,Tree]', 'path': 'Path', 'topology': 'Tree', 'ret': 'Tree'},
         requires=['len(args[0]) >= 1'],
         # nothing is filtered, reordered or dropped on the way: every port of the returned update reaches inverse_topology
         ensures=['ret == inv_of(args[0][:len(args[0]) - 1], update, args[1])'])
