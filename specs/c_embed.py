"""Contracts for the embedding helpers of vivarium/core/process.py (C16, C17)."""
from pyvc.spec import contract, external
from specs.lib_path import *   # noqa: F401,F403

PR = 'vivarium.core.process:'

# assoc_in is what Process.generate / Composer.generate use to embed the generated processes, steps, flow and topology at a
# path: the result is the given dictionary with the value at the path, dictionaries created on the way, every other entry
# kept -- and the dictionary that was passed in is not changed (the function is persistent, unlike assoc_path).
contract(PR + 'assoc_in', props=['C16', 'C17'], pure=True,
         types={'d': 'Tree', 'path': 'Path', 'value': 'Tree', 'ret': 'Tree'},
         requires=['walkable(d, path)', 'implies(len(path) >= 1, is_node(d))'],
         ensures=['ret == tupd(d, path, value)'],
         decreases='len(path)')
