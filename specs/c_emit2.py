"""Engine._emit_store_data under contract (C12): the callers in run_for / __init__ keep using the summary (ghost log of emit times);
this second contract of the same body says WHAT is handed to the emitter."""
from pyvc.spec import contract, external, model_class
from specs.lib_path import *   # noqa: F401,F403
import pyvc.spec as _S
import specs.c_engine  # noqa: F401

E = 'vivarium.core.engine:'
model_class('Emitter', fields={}, ghost={'g_log': 'Seq[Tree]'})
_S.CLASSES['Engine'].fields.update({'emitter': 'Ref[Emitter]'})
_S.CLASSES['Store'].ghost['g_emit_view'] = 'Tree'

external('vivarium.core.store:Store.emit_data', types={'ret': 'Tree'},
         ensures=['ret == self.g_emit_view', 'is_node(ret)'],
         why_trusted='projection of the hierarchy on the emit flags (schema-driven Store code): bounded-checked by bounded/c12.py; the '
                     'ghost g_emit_view names its result')
external('vivarium.core.emitter:Emitter.emit', types={'data': 'Tree'}, modifies=['self.g_log'],
         ensures=['self.g_log == old(self.g_log) + (data,)'],
         why_trusted='abstract emitter: the ghost log records what it is handed (RAMEmitter.emit is verified separately)')

contract(E + 'Engine._emit_store_data#record', props=['C12'],
         types={'data': 'Tree', 'emit_config': 'Tree'},
         modifies=['Emitter.g_log'],
         ensures=[
             # exactly one record is handed over: a history row ...
             'len(self.emitter.g_log) == len(old(self.emitter.g_log)) + 1',
             "self.emitter.g_log[len(self.emitter.g_log) - 1]['table'] == 'history'",
             # ... whose data is the emit view of the hierarchy with the CURRENT global time added as `time`, nothing else
             "child(self.emitter.g_log[len(self.emitter.g_log) - 1], 'data') == "
             "tree_put(self.state.g_emit_view, 'time', self.global_time)",
             'forall_range(0, len(old(self.emitter.g_log)), lambda i: self.emitter.g_log[i] == old(self.emitter.g_log)[i])'])
