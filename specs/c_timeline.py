"""Contracts for vivarium/processes/timeline.py (C19)."""
from pyvc.spec import contract, external, model_class, typedef, bound_types
from specs.lib_path import *   # noqa: F401,F403

TL = 'vivarium.processes.timeline:'
typedef('Event', 'Tup[Real,Map[Path,Tree]]')
model_class('TimelineProcess', fields={'timeline': 'Seq[Event]', 'parameters': 'Rec{timeline:Seq[Event]}'},
            bases=['Process'])

SORTED_TL = "forall_range(0, len(%s), lambda i: forall_range(0, i, lambda j: %s[j][0] < %s[i][0]))"

external(TL + 'nested_set',
         types={'dic': 'Tree', 'keys': 'Path', 'value': 'Tree'},
         requires=['is_node(dic)', 'len(keys) >= 1', 'settable(dic, keys)'],
         mutates=['dic'],
         ensures=['dic == tset(old(dic), keys, value)'],
         why_trusted='re-binds its parameter to inner dictionaries while descending (alias chain): outside the by-value '
                     'model; the same contract is checked natively on generated inputs (bounded)')

contract(TL + 'TimelineProcess.initialize_timeline', props=['C19'],
         types={'timeline': 'Seq[Event]', 'new_event': 'Event', 'event': 'Event', 'i': 'Int', 'j': 'Int'},
         modifies=['self.timeline'],
         abstract=['self.timeline_ports = ', 'for event in self.timeline:'],
         ensures=[SORTED_TL % (('self.timeline',) * 3)],          # strictly increasing: equal times were merged
         note='"no event is lost" needs the permutation argument through sorted(); it is left to the bounded driver',
         loops={0: {'invariant': [
             SORTED_TL % (('timeline',) * 3),
             'implies(_i == 0, len(timeline) == 0)',
             'implies(_i > 0, len(timeline) > 0 and timeline[len(timeline) - 1][0] == _seq[_i - 1][0])']}})

contract(TL + 'TimelineProcess.next_update', props=['C19'],
         types={'timestep': 'Real', 'states': 'Rec{global:Rec{time:Real}}', 'time': 'Real', 'update': 'Tree',
                'change_dict': 'Map[Path,Tree]', 'path_to_variable': 'Path', 'value': 'Tree', 'update_at_path': 'Tree',
                'update_value': 'Tree', 'ret': 'Tree', 'g_k': 'Int', 'i': 'Int', 'j': 'Int'},
         requires=[SORTED_TL % (('self.timeline',) * 3),
                   'forall_range(0, len(self.timeline), lambda i: forall(lambda p: implies(has(self.timeline[i][1], p), len(p) >= 1)))'],
         modifies=['self.timeline'],
         ensures=[
             # exactly the events whose time has been reached are consumed, from the head, in time order
             '0 <= g_k and g_k <= len(old(self.timeline))',
             'len(self.timeline) == len(old(self.timeline)) - g_k',
             'forall_range(0, len(self.timeline), lambda i: self.timeline[i] == old(self.timeline)[i + g_k])',
             "forall_range(0, g_k, lambda i: old(self.timeline)[i][0] <= states['global']['time'])",
             "forall_range(g_k, len(old(self.timeline)), lambda i: old(self.timeline)[i][0] > states['global']['time'])"],
         loops={
             0: {'invariant': [
                 '0 <= g_k and g_k <= len(old(self.timeline))',
                 'len(self.timeline) == len(old(self.timeline)) - g_k',
                 'forall_range(0, len(self.timeline), lambda i: self.timeline[i] == old(self.timeline)[i + g_k])',
                 "forall_range(0, g_k, lambda i: old(self.timeline)[i][0] <= time)",
                 'is_node(update)', "time == states['global']['time']"]},
             1: {'invariant': ['is_node(update)']}},
         ghost={"update = {'global'": {'after': ['g_k = 0']},
                'change_dict = self.timeline.pop(0)[1]': {'after': ['g_k = g_k + 1']}})
