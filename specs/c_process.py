"""Contracts for the command protocol of vivarium/core/process.py (C13): typestate of Process / ParallelProcess."""
from pyvc.spec import contract, external, model_class
import pyvc.spec as _S

PR = 'vivarium.core.process:'
_S.CLASSES['Process'].fields.update({'_pending_command': 'Opt[Tup[Atom,Val,Val]]', '_command_result': 'Val',
                                     'parameters': 'Map[Atom,Val]', '_parameters': 'Map[Atom,Val]'})
# g_owed: answers the child will still write into the pipe and the parent has not read yet; g_profile: the child was
# started with profiling, so it answers the `end` command with its statistics before it exits
model_class('Conn', fields={}, ghost={'g_sent': 'Int', 'g_recv': 'Int', 'g_end_sent': 'Int', 'g_owed': 'Int', 'g_profile': 'Bool'})
model_class('MPProcess', fields={}, ghost={'g_joined': 'Int', 'g_closed': 'Int'})
model_class('Stats', fields={'stats': 'Val'})
model_class('ParallelProcess', bases=['Process'],
            fields={'_ended': 'Bool', 'profile': 'Bool', 'parent': 'Ref[Conn]', 'multiprocess': 'Ref[MPProcess]',
                    '_stats_objs': 'Opt[Seq[Ref[Stats]]]'})

external('conn:Conn.send', params=['self', 'msg'], types={'msg': 'Tup[Atom,Val,Val]'},
         modifies=['self.g_sent', 'self.g_end_sent', 'self.g_owed'],
         ensures=['self.g_sent == old(self.g_sent) + 1',
                  "self.g_end_sent == old(self.g_end_sent) + (1 if msg[0] == 'end' else 0)",
                  "self.g_owed == old(self.g_owed) + (1 if (msg[0] != 'end' or self.g_profile) else 0)"],
         why_trusted='multiprocessing pipe: FIFO and faithful (external library)')
external('conn:Conn.recv', params=['self'], types={'ret': 'Val'},
         requires=['self.g_owed >= 1'],                    # only read an answer the child will actually write
         modifies=['self.g_recv', 'self.g_owed'],
         ensures=['self.g_recv == old(self.g_recv) + 1', 'self.g_owed == old(self.g_owed) - 1'],
         why_trusted='multiprocessing pipe (external library)')
external('mp:MPProcess.join', params=['self'], types={}, modifies=['self.g_joined'],
         ensures=['self.g_joined == old(self.g_joined) + 1'], why_trusted='multiprocessing (external library)')
external('mp:MPProcess.close', params=['self'], types={}, requires=['self.g_joined >= 1'], modifies=['self.g_closed'],
         ensures=['self.g_closed == old(self.g_closed) + 1'], why_trusted='multiprocessing (external library)')
external('pstats:Stats.__init__', params=['self'], types={}, alloc=True, modifies=['self.stats'],
         why_trusted='profiling statistics container (standard library)')

contract(PR + 'Process.pre_send_command', props=['C13'],
         types={'command': 'Atom', 'args': 'Val', 'kwargs': 'Val'},
         modifies=['self._pending_command'],
         raises={'when': 'not is_none(self._pending_command)'},           # a second command while one is pending is refused
         ensures=['not is_none(self._pending_command)', 'some(self._pending_command)[0] == command'])

contract(PR + 'Process.get_command_result', props=['C13'],
         types={'result': 'Val', 'ret': 'Val'},
         modifies=['self._pending_command', 'self._command_result'],
         raises={'when': 'is_none(self._pending_command)'},
         ensures=['is_none(self._pending_command)', 'ret == old(self._command_result)'])

contract(PR + 'ParallelProcess.send_command', props=['C13'],
         types={'command': 'Atom', 'args': 'Val', 'kwargs': 'Val', 'run_pre_check': 'Bool'},
         defaults={},
         modifies=['self._pending_command', 'Conn.g_sent', 'Conn.g_end_sent', 'Conn.g_owed'],
         raises={'when': 'run_pre_check and not is_none(self._pending_command)'},
         ensures=['self.parent.g_sent == old(self.parent.g_sent) + 1',
                  "self.parent.g_owed == old(self.parent.g_owed) + (1 if (command != 'end' or self.parent.g_profile) else 0)",
                  "self.parent.g_end_sent == old(self.parent.g_end_sent) + (1 if command == 'end' else 0)",
                  'implies(run_pre_check, not is_none(self._pending_command))',
                  "unchanged_except('Conn', self.parent)"])

contract(PR + 'ParallelProcess.get_command_result', props=['C13'],
         types={'result': 'Val', 'ret': 'Val'},
         requires=['self._ended or self.parent.g_owed >= 1'],
         modifies=['self._pending_command', 'self._command_result', 'Conn.g_recv', 'Conn.g_owed'],
         raises={'when': 'is_none(self._pending_command)'},
         ensures=['is_none(self._pending_command)',
                  'implies(old(self._ended), ret == old(self._command_result) and self.parent.g_recv == old(self.parent.g_recv))',
                  'implies(not old(self._ended), self.parent.g_recv == old(self.parent.g_recv) + 1 and '
                  'self.parent.g_owed == old(self.parent.g_owed) - 1)',
                  'implies(old(self._ended), self.parent.g_owed == old(self.parent.g_owed))',
                  "unchanged_except('Conn', self.parent)"])

contract(PR + 'ParallelProcess.end', props=['C13'],
         types={'in_flight': 'Opt[Tup[Atom,Val,Val]]', 'stats': 'Ref[Stats]'},
         requires=[
             # protocol state of a live wrapper: one outstanding answer iff a command is pending
             'implies(not self._ended, self.parent.g_owed == (0 if is_none(self._pending_command) else 1))',
             'self.parent.g_profile == self.profile',
             'implies(self.profile, not is_none(self._stats_objs))', 'self.multiprocess.g_joined >= 0'],
         modifies=['self._ended', 'self._pending_command', 'self._command_result', 'self._stats_objs', 'Conn.g_sent',
                   'Conn.g_end_sent', 'Conn.g_recv', 'Conn.g_owed', 'MPProcess.g_joined', 'MPProcess.g_closed', 'Stats.stats'],
         alloc=True,
         ensures=[
             'self._ended',                                                       # whenever it is called, it ends the worker
             # ... by sending `end` exactly once, joining and closing exactly once -- and nothing on a second call
             'implies(not old(self._ended), self.parent.g_end_sent == old(self.parent.g_end_sent) + 1 and '
             'self.multiprocess.g_joined == old(self.multiprocess.g_joined) + 1 and '
             'self.multiprocess.g_closed == old(self.multiprocess.g_closed) + 1)',
             'implies(old(self._ended), self.parent.g_sent == old(self.parent.g_sent) and '
             'self.multiprocess.g_joined == old(self.multiprocess.g_joined))',
             # an in-flight command stays collectable (as for a serial process): the marker is kept
             'implies(not old(self._ended), self._pending_command == old(self._pending_command))'],
         ghost={'self.multiprocess.join()': {'before': [
             # the child only exits after it has written everything it owes; a full pipe blocks it, so everything must
             # have been read before waiting for it (otherwise parent and child wait for each other)
             'assert self.parent.g_owed == 0']}},
         note='no `raises` clause: end() must not raise, in particular not the "command still pending" RuntimeError')


# ---- C13 / C02: a parallel wrapper answers every question by ASKING THE CHILD (transparency) ---------------------------
# g_last: the command name of the last message written into the pipe
_S.CLASSES['Conn'].ghost['g_last'] = 'Atom'
_S.CONTRACTS['conn:Conn.send'].modifies.append('self.g_last')
_S.CONTRACTS['conn:Conn.send'].ensures.append('self.g_last == msg[0]')
_S.CONTRACTS[PR + 'ParallelProcess.send_command'].modifies.append('Conn.g_last')
_S.CONTRACTS[PR + 'ParallelProcess.send_command'].ensures.append('self.parent.g_last == command')
_S.CONTRACTS[PR + 'ParallelProcess.end'].modifies.append('Conn.g_last')

LIVE = ['not self._ended', 'is_none(self._pending_command)', 'self.parent.g_owed == 0']


def ASKED(cmd):
    """the child was asked exactly once, with this command, and its answer was read"""
    return ['self.parent.g_sent == old(self.parent.g_sent) + 1', 'self.parent.g_recv == old(self.parent.g_recv) + 1',
            'self.parent.g_last == %s' % cmd, 'self.parent.g_owed == 0', 'is_none(self._pending_command)']


FWD_FRAME = ['self._pending_command', 'self._command_result', 'Conn.g_sent', 'Conn.g_end_sent', 'Conn.g_recv', 'Conn.g_owed',
             'Conn.g_last']

contract(PR + 'Process.run_command#parallel', props=['C13', 'C02'], self_class='ParallelProcess',
         types={'command': 'Atom', 'args': 'Val', 'kwargs': 'Val', 'ret': 'Val'},
         requires=LIVE + ["command != 'end'"],
         modifies=FWD_FRAME,
         ensures=ASKED('command'))

for _name, _params in (('calculate_timestep', {'states': 'Val'}), ('update_condition', {'timestep': 'Real', 'states': 'Val'}),
                       ('next_update', {'timestep': 'Real', 'states': 'Val'}), ('is_step', {}), ('ports_schema', {}),
                       ('initial_state', {'config': 'Val'}), ('get_private_state', {})):
    contract(PR + 'ParallelProcess.' + _name, props=['C13'] + (['C02'] if _name in ('calculate_timestep', 'next_update') else []),
             types=dict(_params, ret='Val'),
             requires=LIVE, modifies=FWD_FRAME,
             calls={'run_command': PR + 'Process.run_command#parallel'},
             # whatever the wrapped process answers to this question is what the engine gets: the question is forwarded
             ensures=ASKED("'%s'" % _name))


# ---- the DEFAULT implementations (variants: the engine's callers keep the behavioural contract of arbitrary user
#      overrides declared in c_engine; these verify what a process that does not override them does) -----------------------------------------------------------
_S.CLASSES['Process'].fields.update({'condition_path': 'Opt[Path]'})

contract(PR + 'Process.calculate_timestep#default', props=['C02', 'C03'],
         types={'states': 'Val', 'ret': 'Val'},
         requires=["has(self.parameters, 'timestep')"],
         # a process that does not override it requests its `timestep` parameter, whatever the state
         ensures=["ret == lookup(self.parameters, 'timestep')"])

contract(PR + 'Process.update_condition#default', props=['C03', 'C13'],
         types={'timestep': 'Real', 'states': 'Tree', 'ret': 'Tree'},
         requires=['implies(not is_none(self.condition_path), dicts_along(states, some(self.condition_path)))'],
         # without a `_condition` path a process always runs; with one, the variable at that path decides
         ensures=['implies(is_none(self.condition_path) or len(some(self.condition_path)) == 0, ret == True)',
                  'implies(not is_none(self.condition_path) and len(some(self.condition_path)) > 0, '
                  'ret == tget(states, some(self.condition_path), leaf_none()))'],
         note='condition_path is a property reading parameters["_condition"]; modelled as a field')
