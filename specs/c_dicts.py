"""Contracts for vivarium/library/dict_utils.py (deep merges) and the remaining path helpers."""
from pyvc.spec import contract, external, ghost, lemma, requires, ensures, hint, bound_types
from specs.lib_path import *   # noqa: F401,F403

D = 'vivarium.library.dict_utils:'
bound_types(k='Atom')


def forall_keys2(a, b, f):
    return all(f(k) for k in set(a) | set(b))


@ghost(quantified=True)
def merged(r: 'Tree', a: 'Tree', b: 'Tree') -> 'Bool':
    """r is the right-biased deep merge of b into a (both dicts): keys of a not mentioned by b keep their
    value, keys of b are taken from b, except that two dicts are merged recursively."""
    return is_node(r) and forall(lambda k: merged_at(r, a, b, k))


def _merged_native(r, a, b):
    if not isinstance(r, dict):
        return False
    for k in set(r) | set(a) | set(b):
        if (k in r) != (k in a or k in b):
            return False
        if k in b:
            if k in a and isinstance(a[k], dict) and isinstance(b[k], dict):
                if not _merged_native(r[k], a[k], b[k]):
                    return False
            elif r[k] != b[k]:
                return False
        elif k in a and r[k] != a[k]:
            return False
    return True


merged.__wrapped_native__ = _merged_native


@ghost(quantified=True)
def merged_at(r: 'Tree', a: 'Tree', b: 'Tree', k: 'Atom') -> 'Bool':
    if has(r, k) != (has(a, k) or has(b, k)):
        return False
    if has(b, k):
        if has(a, k) and is_node(child(a, k)) and is_node(child(b, k)):
            return merged(child(r, k), child(a, k), child(b, k))
        return child(r, k) == child(b, k)
    if has(a, k):
        return child(r, k) == child(a, k)
    return True


contract(D + 'deep_merge', props=['C06', 'C08', 'C16', 'C17'], pure=True, gen_depth=3,
         types={'dct': 'Tree', 'merge_dct': 'Tree', 'ret': 'Tree', 'k': 'Atom', 'v': 'Tree'},
         requires=['is_node(dct)', 'is_node(merge_dct)'],
         mutates=['dct'],
         ensures=['merged(dct, old(dct), merge_dct)', 'ret == dct'],
         decreases='tree_rank(dct)',
         loops={0: {'invariant': [
             'is_node(dct)',
             'forall(lambda k: has(dct, k) == (has(entry(dct), k) or ((k in _done) and has(merge_dct, k))))',
             'forall(lambda k: implies((k in _done), merged_at(dct, entry(dct), merge_dct, k)))',
             'forall(lambda k: implies(not (k in _done) and has(entry(dct), k), child(dct, k) == child(entry(dct), k)))']}})

contract('vivarium.core.registry:update_merge', props=['C08'], pure=True, gen_depth=4,
         types={'current_value': 'Tree', 'new_value': 'Tree', 'update': 'Tree', 'k': 'Atom', 'new': 'Tree', 'v': 'Tree',
                'ret': 'Tree'},
         requires=['is_node(current_value)', 'is_node(new_value)'],
         ensures=['merged(ret, current_value, new_value)'],       # unmentioned keys kept, new keys added, dicts merged deeply
         loops={0: {'invariant': [
             'is_node(update)',
             'forall(lambda k: has(update, k) == (has(current_value, k) or ((k in _done) and has(new_value, k))))',
             'forall(lambda k: implies(k in _done, merged_at(update, current_value, new_value, k)))',
             'forall(lambda k: implies(not (k in _done) and has(current_value, k), child(update, k) == child(current_value, k)))']}})


# ---- deep_merge_multi_update: colliding updates are kept side by side under '_multi_update' ---------------------------
@ghost(quantified=True)
def mmerged(r: 'Tree', a: 'Tree', b: 'Tree') -> 'Bool':
    return is_node(r) and forall(lambda k: mmerged_at(r, a, b, k))


@ghost(quantified=True)
def mmerged_at(r: 'Tree', a: 'Tree', b: 'Tree', k: 'Atom') -> 'Bool':
    if has(r, k) != (has(a, k) or has(b, k)):
        return False
    if has(b, k):
        if has(a, k) and is_node(child(a, k)) and is_node(child(b, k)):
            return mmerged(child(r, k), child(a, k), child(b, k))
        if has(a, k):
            if is_node(child(a, k)) and has(child(a, k), '_multi_update'):
                return child(r, k) == tree_put(child(a, k), '_multi_update',
                                                list_append(child(child(a, k), '_multi_update'), child(b, k)))
            return child(r, k) == tree_put(EMPTY_NODE, '_multi_update', list2(child(a, k), child(b, k)))
        return child(r, k) == child(b, k)
    if has(a, k):
        return child(r, k) == child(a, k)
    return True


def _mmerged_native(r, a, b):
    if not isinstance(r, dict):
        return False
    for k in set(r) | set(a) | set(b):
        if (k in r) != (k in a or k in b):
            return False
        if k in b:
            if k in a and isinstance(a[k], dict) and isinstance(b[k], dict):
                if not _mmerged_native(r[k], a[k], b[k]):
                    return False
            elif k in a:
                if isinstance(a[k], dict) and '_multi_update' in a[k]:
                    want = dict(a[k]); want['_multi_update'] = list(a[k]['_multi_update']) + [b[k]]
                else:
                    want = {'_multi_update': [a[k], b[k]]}
                if r[k] != want:
                    return False
            elif r[k] != b[k]:
                return False
        elif k in a and r[k] != a[k]:
            return False
    return True


mmerged.__wrapped_native__ = _mmerged_native


@ghost(quantified=True)
def mu_wf(t: 'Tree') -> 'Bool':
    return forall(lambda k: implies(is_node(t) and has(t, k),
                                    implies(k == '_multi_update', is_list(child(t, k))) and
                                    implies(is_node(child(t, k)), mu_wf(child(t, k)))))


def _mu_wf_native(t):
    if not isinstance(t, dict):
        return True
    return all((k != '_multi_update' or isinstance(v, list)) and _mu_wf_native(v) for k, v in t.items())


mu_wf.__wrapped_native__ = _mu_wf_native

contract(D + 'deep_merge_multi_update', props=['C06', 'C01', 'C08'], pure=True, gen_depth=3, atoms=['_multi_update'],
         types={'dct': 'Tree', 'merge_dct': 'Tree', 'ret': 'Tree', 'k': 'Atom', 'v': 'Tree'},
         requires=['is_node(dct)', 'is_node(merge_dct)',
                   # a collected '_multi_update' entry is a list (it is only ever created by this function)
                   'mu_wf(dct)'],
         mutates=['dct'],
         ensures=['mmerged(dct, old(dct), merge_dct)', 'ret == dct'],       # every update of every port survives
         decreases='tree_rank(dct)',
         loops={0: {'invariant': [
             'is_node(dct)',
             'forall(lambda k: has(dct, k) == (has(entry(dct), k) or ((k in _done) and has(merge_dct, k))))',
             'forall(lambda k: implies((k in _done), mmerged_at(dct, entry(dct), merge_dct, k)))',
             'forall(lambda k: implies(not (k in _done) and has(entry(dct), k), child(dct, k) == child(entry(dct), k)))']}})


external(D + 'deep_copy_internal', types={'d': 'Tree', 'ret': 'Tree'}, ensures=['ret == d'],
         why_trusted='copies the dictionaries of a nested dict and keeps every other object: equal by value (recursion inside a dict '
                     'comprehension over a Tree is outside the translated subset); that the copy is a NEW object is what the '
                     'bounded frame monitor and the witnesses F-C08-update-alias / F-C07-subschema-alias check')


# ---- deep_merge_check(check_equality=True): the RAM emitter's row merge (C12) ---------------------------------------------
# A row that is emitted again with equal values must be accepted and must leave the stored row what it was; a row that
# disagrees anywhere (at any depth) must be refused.  `is`-identity of the check_equality=False mode has no counterpart
# in the value model (Tree values have no identity), so only the mode the emitter uses is under contract.
@ghost(quantified=True)
def compat(a: 'Tree', b: 'Tree') -> 'Bool':
    """no key path on which a and b both hold a value and the two values differ (dicts are compared key by key)"""
    return forall(lambda k: compat_at(a, b, k))


@ghost(quantified=True)
def compat_at(a: 'Tree', b: 'Tree', k: 'Atom') -> 'Bool':
    if has(a, k) and has(b, k):
        if is_node(child(a, k)) and is_node(child(b, k)):
            return compat(child(a, k), child(b, k))
        return child(a, k) == child(b, k)
    return True


def _compat_native(a, b):
    for k in set(a) & set(b):
        if isinstance(a[k], dict) and isinstance(b[k], dict):
            if not _compat_native(a[k], b[k]):
                return False
        elif a[k] != b[k]:
            return False
    return True


compat.__wrapped_native__ = _compat_native

INST = 'assert implies(compat(entry(dct), merge_dct), compat_at(entry(dct), merge_dct, k))'

contract(D + 'deep_merge_check', props=['C12'], pure=True, gen_depth=3,
         types={'dct': 'Tree', 'merge_dct': 'Tree', 'ret': 'Tree', 'k': 'Atom', 'check_equality': 'Bool', 'path': 'Path'},
         requires=['is_node(dct)', 'is_node(merge_dct)', 'check_equality'],
         mutates=['dct'],
         raises={'when': 'not compat(dct, merge_dct)'},           # refused exactly when the two rows disagree somewhere
         ensures=['merged(dct, old(dct), merge_dct)', 'ret == dct'],
         decreases='tree_rank(dct)',
         # proof steps: `compat` is a universally quantified definition; to USE it (refusing a row) the solver needs the
         # instance at the key in hand, which no term of the path mentions by itself
         ghost={'raise ValueError(': {'before': [INST]}, 'deep_merge_check(dct[k], merge_dct[k]': {'before': [INST]}},
         loops={0: {'invariant': [
             'is_node(dct)',
             'forall(lambda k: has(dct, k) == (has(entry(dct), k) or ((k in _done) and has(merge_dct, k))))',
             'forall(lambda k: implies((k in _done), merged_at(dct, entry(dct), merge_dct, k)))',
             'forall(lambda k: implies((k in _done), compat_at(entry(dct), merge_dct, k)))',
             'forall(lambda k: implies(not (k in _done) and has(entry(dct), k), child(dct, k) == child(entry(dct), k)))']}})
