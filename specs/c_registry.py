"""Contracts for the updater and divider functions of vivarium/core/registry.py (C08, C11)."""
from pyvc.spec import contract, external
from specs.lib_path import *   # noqa: F401,F403

M = 'vivarium.core.registry:'

# ---- updaters ------------------------------------------------------------------------------
contract(M + 'update_set', props=['C08'], pure=True,
         types={'current_value': 'Tree', 'new_value': 'Tree', 'ret': 'Tree'},
         ensures=['ret == new_value'])

contract(M + 'update_null', props=['C08'], pure=True,
         types={'current_value': 'Tree', 'new_value': 'Tree', 'ret': 'Tree'},
         ensures=['ret == current_value'])

contract(M + 'update_accumulate', props=['C08'], pure=True,
         instances=[{'name': 'int', 'types': {'current_value': 'Int', 'new_value': 'Int', 'ret': 'Int'}},
                    {'name': 'float', 'types': {'current_value': 'Real', 'new_value': 'Real', 'ret': 'Real'}},
                    {'name': 'int+float', 'types': {'current_value': 'Int', 'new_value': 'Real', 'ret': 'Real'}}],
         ensures=['ret == current_value + new_value'])

contract(M + 'update_nonnegative_accumulate', props=['C08'], pure=True,
         instances=[{'name': 'int', 'types': {'current_value': 'Int', 'new_value': 'Int', 'ret': 'Int',
                                              'updated_value': 'Int'}},
                    {'name': 'float', 'types': {'current_value': 'Real', 'new_value': 'Real', 'ret': 'Real',
                                                'updated_value': 'Real'}}],
         ensures=['implies(current_value + new_value >= 0, ret == current_value + new_value)',
                  'implies(current_value + new_value < 0, ret == 0)'])

# ---- dividers ------------------------------------------------------------------------------
contract(M + 'divide_set', props=['C11'], pure=True,
         types={'state': 'Tree', 'ret': 'Seq[Tree]'},
         ensures=['len(ret) == 2', 'ret[0] == state', 'ret[1] == state'])

contract(M + 'divide_set_value', props=['C11'], pure=True, atoms=['value'],
         types={'state': 'Tree', 'config': 'Tree', 'value': 'Tree', 'ret': 'Seq[Tree]'},
         requires=['is_node(config)', "has(config, 'value')"],
         ensures=['len(ret) == 2', "ret[0] == child(config, 'value')", "ret[1] == child(config, 'value')"])

contract(M + 'divide_split', props=['C11'], pure=True,
         instances=[{'name': 'int', 'types': {'state': 'Int', 'ret': 'Seq[Int]', 'remainder': 'Int', 'half': 'Int'},
                     'ensures': ['ret[0] - ret[1] <= 1', 'ret[1] - ret[0] <= 1']},
                    {'name': 'float', 'types': {'state': 'Real', 'ret': 'Seq[Real]', 'half': 'Real'},
                     'ensures': ['ret[0] == ret[1]']}],
         ensures=['len(ret) == 2', 'ret[0] + ret[1] == state'])

contract(M + 'divide_binomial', props=['C11'], pure=True,
         types={'state': 'Int', 'counts_1': 'Int', 'counts_2': 'Int', 'ret': 'Seq[Int]'},
         requires=['state >= 0', 'state < 4611686018427387904'],       # (2**62) domain of numpy's binomial (a count that fits int64)
         ensures=['len(ret) == 2', 'ret[0] + ret[1] == state'],
         note='conservation holds for whatever np.random.binomial returns')

contract(M + 'divide_split_dict', props=['C11'], pure=True,
         types={'state': 'Opt[Map[Atom,Tree]]', 'd1': 'Map[Atom,Tree]', 'd2': 'Map[Atom,Tree]', 'ret': 'Seq[Map[Atom,Tree]]'},
         ensures=['len(ret) == 2',
                  # a partition of the keys: every key of the mother goes to exactly one daughter, with its value;
                  # no daughter holds a key the mother did not have
                  'implies(not is_none(state), forall(lambda k: implies(k in some(state), (k in ret[0]) or (k in ret[1]))))',
                  'implies(not is_none(state), forall(lambda k: implies((k in ret[0]) or (k in ret[1]), k in some(state))))',
                  'forall(lambda k: not ((k in ret[0]) and (k in ret[1])))',
                  'implies(not is_none(state), forall(lambda k: implies(k in ret[0], ret[0][k] == some(state)[k])))',
                  'implies(not is_none(state), forall(lambda k: implies(k in ret[1], ret[1][k] == some(state)[k])))',
                  'implies(is_none(state), forall(lambda k: not (k in ret[0]) and not (k in ret[1])))'])

contract(M + 'divide_zero', props=['C11'], pure=True,
         types={'state': 'Tree', 'ret': 'Seq[Int]'},
         ensures=['len(ret) == 2', 'ret[0] == 0', 'ret[1] == 0'])

contract(M + 'divide_null', props=['C11'], pure=True,
         types={'state': 'Tree', 'ret': 'Opt[Tree]'},
         ensures=['is_none(ret)'])

contract(M + 'assert_no_divide', props=['C11'], pure=True,
         types={'state': 'Tree'},
         raises={'when': 'True'})
