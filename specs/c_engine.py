"""Contracts for vivarium/core/engine.py (scheduler, bookkeeping, step graph).

Heap model: Engine / Defer / Store / Process objects are references; their fields live in heap arrays.
Ghost ledger (fields g_* of Defer objects, assigned only by ghost code below):
    g_live     the Defer was created by _process_update (its result may be collected once)
    g_issued   it was stored in the front by run_for with a due time (scheduling ledger)
    g_empty    it is an EmptyDefer (quiet marker)
    g_path     path of the process it belongs to
    g_start    front time of the process when it was invoked
    g_due      time at which the update must be applied (= front time after the invocation)
    g_dt       the timestep handed to next_update
    g_consumed Defer.get() has been called (the update was handed to apply_update)
    g_at       global time at which it was consumed
"""
from pyvc.spec import contract, external, model_class, union, typedef, bound_types
from specs.lib_path import *   # noqa: F401,F403

E = 'vivarium.core.engine:'
bound_types(d='Ref[Defer]', p='Path', i='Int', j='Int', k='Path')

union('Upd', empty='EmptyDict', pending='Tup[Ref[Defer],Ref[Store]]')
typedef('Front', 'Rec{time:Real,update:Upd}')

model_class('Store', fields={'topology': 'Tree', 'topology_view': 'Opt[Tree]', 'value': 'Val'})
model_class('Process', fields={'g_pending': 'Bool'})
model_class('Defer', fields={'defer': 'Opt[Ref[Process]]', 'args': 'Tup[Path,Tree]'},
            ghost={'g_live': 'Bool', 'g_issued': 'Bool', 'g_empty': 'Bool', 'g_path': 'Path', 'g_start': 'Real', 'g_due': 'Real',
                   'g_dt': 'Real', 'g_consumed': 'Bool', 'g_at': 'Real'})
model_class('EmptyDefer', fields={}, bases=['Defer'])
model_class('Engine', fields={
    'global_time': 'Real', 'emit_step': 'Real', 'global_time_precision': 'Opt[Int]', 'progress_bar': 'Bool',
    'display_info': 'Bool',
    'front': 'Map[Path,Front]', 'process_paths': 'Map[Path,Ref[Process]]', 'state': 'Ref[Store]',
    '_step_paths': 'Map[Path,Ref[Process]]', '_step_graph': 'Ref[_StepGraph]',
    'processes': 'Tree', 'steps': 'Tree', 'topology': 'Tree', 'flow': 'Tree'},
    ghost={'g_version': 'Int', 'g_emits': 'Seq[Real]', 'g_steps_run': 'Int', 'g_views_valid': 'Bool'})
model_class('_StepGraph', fields={'_sequential_steps': 'Seq[Path]'})

# what Engine.apply_update may change besides the scheduler's own maps (see specs/c_apply.py)
APPLY_FRAME = ['self.front', 'self.processes', 'self.steps', 'self.topology', 'self.flow', 'Store.value', 'Store.inner', 'Store.outer',
               'Store.topology', 'Store.g_report', '_StepGraph._sequential_steps', '_StepGraph.g_deps', '_StepGraph.g_seq']

# structural updates only ever REMOVE front entries (those of deleted processes); what stays is untouched
FRONT_SHRINKS = ("forall(lambda p: implies(has(self.front, p), has(old(self.front), p) and "
                 "lookup(self.front, p) == lookup(old(self.front), p)))")

contract(E + 'empty_front', props=['C01', 'C02', 'C10'],
         types={'t': 'Real', 'ret': 'Front'},
         ensures=['ret["time"] == t', 'is_alt(ret["update"], "empty")'])

contract(E + 'Engine._remove_deleted_processes', props=['C01', 'C10'],
         types={'k': 'Path'},
         modifies=['self.front'],
         ensures=['forall(lambda k: has(self.front, k) == (has(old(self.front), k) and has(self.process_paths, k)))',
                  'forall(lambda k: implies(has(self.front, k), lookup(self.front, k) == lookup(old(self.front), k)))'])

contract(E + 'Engine._check_complete', props=['C02'],
         types={'k': 'Path'},
         requires=['forall(lambda k: implies(has(self.front, k), lookup(self.front, k)["time"] == self.global_time '
                   'and is_alt(lookup(self.front, k)["update"], "empty")))'],
         ensures=['True'],
         loops={0: {'invariant': ['True']}},
         note='the run-time asserts of _check_complete become obligations: they hold under the postcondition of '
              'run_for(force_complete=True)')

P = 'vivarium.core.process:'

# ---- behaviour of user code (environment): trusted, bounded-checked by the scenario drivers ---------------------
external(P + 'Process.calculate_timestep',
         types={'states': 'Tree', 'ret': 'Real'},
         ensures=['ret > 0'],
         why_trusted='user code: processes request positive timesteps (stated in C03); does not touch engine state')
external(P + 'Process.update_condition',
         types={'timestep': 'Real', 'states': 'Tree', 'ret': 'Bool'},
         why_trusted='user code: pure with respect to engine state')
external(E + 'Engine._process_state',
         types={'path': 'Path', 'ret': 'Tup[Ref[Store],Tree]'},
         requires=['self.g_views_valid'],      # C07/C04: a process is only ever shown views of the current hierarchy
         ensures=['allocated(ret[0])'],
         why_trusted='Store navigation + view_values (schema-driven Store code): bounded-checked under C06/C07')
external(E + 'Engine._emit_store_data',
         types={},
         modifies=['self.g_emits'],
         ensures=['self.g_emits == old(self.g_emits) + (self.global_time,)'],
         why_trusted='emitter side (Store.emit_data, Emitter.emit) is bounded-checked under C12; ghost log of emit times')
# Engine.apply_update: verified, see specs/c_apply.py (summary contract for the callers + bookkeeping variant)

contract(E + 'EmptyDefer.__init__', props=['C01'],
         types={}, alloc=True,
         modifies=['self.g_empty', 'self.g_issued', 'self.g_consumed', 'self.g_live'],
         ensures=['self.g_empty', 'not self.g_issued', 'not self.g_consumed', 'not self.g_live'],
         trusted=True, why_trusted='constructor glue (super().__init__ with a nested function); ghost tags only')

contract(E + 'Defer.__init__', props=['C01'],
         types={'defer': 'Opt[Ref[Process]]', 'f': 'Fun[Tree,Tup[Path,Tree]->Tree]', 'args': 'Tup[Path,Tree]'}, alloc=True,
         modifies=['self.defer', 'self.args', 'self.g_empty', 'self.g_issued', 'self.g_consumed', 'self.g_live'],
         ensures=['self.defer == defer', 'self.args == args', 'not self.g_empty', 'not self.g_issued', 'not self.g_consumed',
                  'not self.g_live'],
         trusted=True, why_trusted='plain field initialisation (the function-valued field f is not modelled)')

external(E + '_invoke_process',
         types={'process': 'Ref[Process]', 'interval': 'Real', 'states': 'Tree', 'ret': 'Ref[Process]'},
         modifies=['Process.g_pending'],
         ensures=['ret == process'],
         why_trusted='send_command on a user process; the command typestate is treated under C13')

contract(E + '_process_update', props=['C01', 'C02', 'C13'],
         types={'path': 'Path', 'process': 'Ref[Process]', 'store': 'Ref[Store]', 'states': 'Tree', 'interval': 'Real',
                'ret': 'Tup[Ref[Defer],Ref[Store]]', 'absolute': 'Ref[Defer]'},
         modifies=['Process.g_pending', 'Defer.defer', 'Defer.args', 'Defer.g_empty', 'Defer.g_issued', 'Defer.g_consumed',
                   'Defer.g_path', 'Defer.g_dt', 'Defer.g_live'],
         alloc=True,
         ensures=['ret[1] == store', 'fresh(ret[0])', 'allocates(1)', 'ret[0].g_live', 'not ret[0].g_issued', 'not ret[0].g_consumed',
                  'not ret[0].g_empty',
                  'ret[0].g_path == path', 'ret[0].g_dt == interval',
                  "unchanged_except('Defer', ret[0])"],
         ghost={'absolute = Defer(': {'after': ['absolute.g_live = True', 'absolute.g_path = path',
                                                 'absolute.g_dt = interval']}})

S_ = 'vivarium.core.store:'
external(S_ + 'Store.build_topology_views', types={}, modifies=['Store.topology_view'],
         why_trusted='schema-driven view builder: bounded-checked under C07')

external(E + 'Defer.get',
         types={'ret': 'Tree'},
         requires=['self.g_empty or (self.g_live and not self.g_consumed)'],
         modifies=['self.g_consumed', 'Process.g_pending'],
         ensures=['self.g_consumed'],
         why_trusted='behavioural contract of Defer.get / EmptyDefer.get: calls the function-valued field f on '
                     'defer.get_command_result(); exactly-once use is what the callers are verified against')

external(E + '_StepGraph.get_execution_layers', types={'ret': 'Seq[Seq[Path]]'},
         why_trusted='networkx topological_generations + sorted: the layering itself is bounded-checked under C05')

contract(E + 'Engine._calculate_update', props=['C05', 'C01', 'C07'],
         types={'path': 'Path', 'process': 'Ref[Process]', 'interval': 'Real', 'store': 'Ref[Store]', 'states': 'Tree',
                'ret': 'Tup[Ref[Defer],Ref[Store]]'},
         requires=['self.g_views_valid'],
         modifies=['Process.g_pending', 'Defer.defer', 'Defer.args', 'Defer.g_empty', 'Defer.g_issued', 'Defer.g_consumed',
                   'Defer.g_path', 'Defer.g_dt', 'Defer.g_live'],
         alloc=True,
         ensures=['fresh(ret[0])', 'allocates(1)', 'ret[0].g_empty or (ret[0].g_live and not ret[0].g_consumed)', 'not ret[0].g_issued',
                  "unchanged_except('Defer', ret[0])"])

DU = "deferred_updates[%s][0]"
NEW_NOT_ISSUED = "forall(lambda d: implies(fresh(d), not d.g_issued))"    # step tokens never enter the scheduling ledger
contract(E + 'Engine.run_steps', props=['C05', 'C04', 'C07', 'C06'],
         types={'layers': 'Seq[Seq[Path]]', 'layer': 'Seq[Path]', 'deferred_updates': 'Seq[Tup[Ref[Defer],Ref[Store]]]',
                'path': 'Path', 'step': 'Opt[Ref[Process]]', 'update': 'Ref[Defer]', 'store': 'Ref[Store]',
                'view_expire': 'Bool', 'view_expire_update': 'Bool', 'i': 'Int', 'j': 'Int'},
         requires=['self.g_views_valid'],
         modifies=['self.process_paths', 'self._step_paths', 'self.g_version', 'self.g_steps_run', 'self.g_views_valid',
                   'Store.topology_view', 'Process.g_pending', 'Defer.defer', 'Defer.args', 'Defer.g_empty',
                   'Defer.g_issued', 'Defer.g_consumed', 'Defer.g_path', 'Defer.g_dt', 'Defer.g_live'] + APPLY_FRAME,
         alloc=True,
         ensures=['self.g_views_valid',                                      # views are current again when the phase ends
                  'self.g_steps_run == old(self.g_steps_run) + 1',
                  "old_objects_unchanged('Defer')", NEW_NOT_ISSUED, FRONT_SHRINKS],          # only tokens created in this phase are touched
         loops={
             0: {'invariant': ['self.g_views_valid', 'self.g_steps_run == old(self.g_steps_run) + 1',
                               "old_objects_unchanged('Defer')", NEW_NOT_ISSUED, FRONT_SHRINKS]},
             # computing a layer: no update is applied in between (g_version frozen): all steps of the layer see one state
             1: {'invariant': ['self.g_views_valid', 'self.g_version == entry(self.g_version)',
                               'self.g_steps_run == old(self.g_steps_run) + 1', "old_objects_unchanged('Defer')",
                               "forall_range(0, len(deferred_updates), lambda i: fresh(%s))" % (DU % 'i'),
                               "forall_range(0, len(deferred_updates), lambda i: allocated(%s) and (%s.g_empty or "
                               "(%s.g_live and not %s.g_consumed)))" % ((DU % 'i',) * 4),
                               "forall_range(0, len(deferred_updates), lambda i: forall_range(0, i, lambda j: %s != %s))"
                               % (DU % 'i', DU % 'j'), NEW_NOT_ISSUED, FRONT_SHRINKS]},
             # applying the layer: each deferred update is collected exactly once
             2: {'invariant': ['self.g_steps_run == old(self.g_steps_run) + 1', "old_objects_unchanged('Defer')",
                               "forall_range(0, len(deferred_updates), lambda i: fresh(%s))" % (DU % 'i'),
                               'self.g_views_valid == (entry(self.g_views_valid) and not view_expire)',
                               "forall_range(_i, len(deferred_updates), lambda i: allocated(%s) and (%s.g_empty or "
                               "(%s.g_live and not %s.g_consumed)))" % ((DU % 'i',) * 4),
                               "forall_range(0, len(deferred_updates), lambda i: forall_range(0, i, lambda j: %s != %s))"
                               % (DU % 'i', DU % 'j'), NEW_NOT_ISSUED, FRONT_SHRINKS]},
         },
         ghost={'self.state.build_topology_views()': {'after': ['self.g_views_valid = True']},
                'layers = self._step_graph.get_execution_layers()': {'after': ['self.g_steps_run = self.g_steps_run + 1']}})

TOK = "alt(update_tuples[%s], 'pending')[0]"
contract(E + 'Engine._send_updates', props=['C01', 'C05', 'C12', 'C04', 'C07'],
         types={'update_tuples': 'Seq[Upd]', 'update_tuple': 'Upd', 'update': 'Ref[Defer]', 'state': 'Ref[Store]',
                'view_expire': 'Bool', 'view_expire_update': 'Bool', 'i': 'Int', 'j': 'Int', 'd': 'Ref[Defer]'},
         requires=['self.g_views_valid',
                   "forall_range(0, len(update_tuples), lambda i: is_alt(update_tuples[i], 'pending'))",
                   "forall_range(0, len(update_tuples), lambda i: allocated(%s) and (%s.g_empty or (%s.g_live and "
                   "not %s.g_consumed and %s.g_due == self.global_time)))" % ((TOK % 'i',) * 5),
                   "forall_range(0, len(update_tuples), lambda i: forall_range(0, i, lambda j: %s != %s))" % (TOK % 'i', TOK % 'j')],
         modifies=['Defer.g_consumed', 'Defer.g_at', 'self.process_paths', 'self._step_paths', 'self.g_version',
                   'self.g_steps_run', 'self.g_views_valid', 'Store.topology_view', 'Process.g_pending', 'Defer.defer',
                   'Defer.args', 'Defer.g_empty', 'Defer.g_issued', 'Defer.g_path', 'Defer.g_dt', 'Defer.g_live'] + APPLY_FRAME,
         alloc=True,
         ensures=['self.g_views_valid',
                  "forall_range(0, len(update_tuples), lambda i: %s.g_consumed and %s.g_at == self.global_time)" % ((TOK % 'i',) * 2),
                  "forall(lambda d: implies(old(allocated(d)) and not exists_range(0, len(update_tuples), lambda i: d == %s), "
                  "d.g_consumed == old(d.g_consumed) and d.g_at == old(d.g_at)))" % (TOK % 'i'),
                  "old_objects_unchanged('Defer', 'g_issued', 'g_empty', 'g_path', 'g_dt', 'g_start', 'g_due', 'g_live')",
                  NEW_NOT_ISSUED, FRONT_SHRINKS,
                  'self.g_steps_run == old(self.g_steps_run) + 1'],
         loops={0: {'invariant': [
             FRONT_SHRINKS,
             "forall_range(0, _i, lambda i: %s.g_consumed and %s.g_at == self.global_time)" % ((TOK % 'i',) * 2),
             "forall_range(_i, len(update_tuples), lambda i: %s.g_consumed == old(%s.g_consumed))" % ((TOK % 'i',) * 2),
             "forall(lambda d: implies(not exists_range(0, len(update_tuples), lambda i: d == %s), "
             "d.g_consumed == old(d.g_consumed) and d.g_at == old(d.g_at)))" % (TOK % 'i'),
             'self.g_steps_run == old(self.g_steps_run)', 'self.global_time == old(self.global_time)',
             'self.g_views_valid == (old(self.g_views_valid) and not view_expire)']}},
         ghost={'view_expire_update = self.apply_update(': {'after': ['update.g_at = self.global_time']},
                'self.state.build_topology_views()': {'after': ['self.g_views_valid = True']}})


# ---- C10: bookkeeping after deletions ------------------------------------------------------------------------------
def PREFIX(sub, p):
    return "(len(%s) <= len(%s) and forall_range(0, len(%s), lambda j: %s[j] == %s[j]))" % (sub, p, sub, p, sub)

external(E + '_StepGraph.remove', types={'path': 'Path'}, modifies=['self._sequential_steps'],
         why_trusted='networkx graph surgery; the step graph is bounded-checked under C05/C10')

contract(E + 'Engine._delete_path', props=['C10', 'C03', 'C02', 'C01'],
         types={'deletion': 'Path', 'path': 'Path', 'p': 'Path', 'j': 'Int'},
         requires=['dicts_along(self.processes, deletion)', 'dicts_along(self.steps, deletion)',
                   'dicts_along(self.topology, deletion)', 'dicts_along(self.flow, deletion)'],
         modifies=['self.processes', 'self.steps', 'self.topology', 'self.flow', 'self.process_paths', 'self._step_paths',
                   '_StepGraph._sequential_steps', 'self.front'],
         ensures=[
             # the fronts of the deleted processes are forgotten at once (a process created later at such a path starts its
             # own front); every other front entry is untouched
             "forall(lambda p: has(self.front, p) == (has(old(self.front), p) and not (has(old(self.process_paths), p) and below(deletion, p))))",
             "forall(lambda p: implies(has(self.front, p), lookup(self.front, p) == lookup(old(self.front), p)))",
             # the published composite loses exactly the entry at the deleted path
             'self.processes == tdel(old(self.processes), deletion)', 'self.steps == tdel(old(self.steps), deletion)',
             'self.topology == tdel(old(self.topology), deletion)', 'self.flow == tdel(old(self.flow), deletion)',
             # the scheduler forgets all and only the processes / steps below the deleted path
             "forall(lambda p: has(self.process_paths, p) == (has(old(self.process_paths), p) and not %s))" % PREFIX('deletion', 'p'),
             "forall(lambda p: implies(has(self.process_paths, p), lookup(self.process_paths, p) == lookup(old(self.process_paths), p)))",
             "forall(lambda p: has(self._step_paths, p) == (has(old(self._step_paths), p) and not %s))" % PREFIX('deletion', 'p'),
             "forall(lambda p: implies(has(self._step_paths, p), lookup(self._step_paths, p) == lookup(old(self._step_paths), p)))",
             # the same with the prefix relation as one atom (for callers that reason about several deletions)
             "forall(lambda p: has(self.process_paths, p) == (has(old(self.process_paths), p) and not below(deletion, p)))",
             "forall(lambda p: has(self._step_paths, p) == (has(old(self._step_paths), p) and not below(deletion, p)))"],
         loops={
             0: {'invariant': [
                 "forall(lambda p: has(self.process_paths, p) == (has(entry(self.process_paths), p) and not ((p in _done) and %s)))" % PREFIX('deletion', 'p'),
                 "forall(lambda p: implies(has(self.process_paths, p), lookup(self.process_paths, p) == lookup(entry(self.process_paths), p)))",
                 "forall(lambda p: has(self.front, p) == (has(entry(self.front), p) and not (has(entry(self.process_paths), p) and (p in _done) and %s)))" % PREFIX('deletion', 'p'),
                 "forall(lambda p: implies(has(self.front, p), lookup(self.front, p) == lookup(entry(self.front), p)))"]},
             1: {'invariant': [
                 "forall(lambda p: has(self._step_paths, p) == (has(entry(self._step_paths), p) and not ((p in _done) and %s)))" % PREFIX('deletion', 'p'),
                 "forall(lambda p: implies(has(self._step_paths, p), lookup(self._step_paths, p) == lookup(entry(self._step_paths), p)))"]}})
