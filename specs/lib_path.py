"""Ghost vocabulary for paths and nested dictionaries ("trees").

Everything here is executable Python (used natively by the replay harness and
the bounded monitors) *and* is translated to logic by PyVC.  Natively a Tree is
a nested dict (or any other value as a leaf); ABSENT is a sentinel.
"""
from pyvc.spec import ghost, lemma, requires, ensures, hint, types


# ---- native meaning of the spec primitives (PyVC has built-in translations) ----
class _Absent:
    def __repr__(self):
        return 'ABSENT'


ABSENT = None          # natively "absent" reads as None (get_in's default)
EMPTY_NODE = {}


def is_node(t):
    return isinstance(t, dict)


def has(t, k):
    return isinstance(t, dict) and k in t


def child(t, k):
    return t[k] if isinstance(t, dict) and k in t else None


def tree_put(t, k, v):
    out = dict(t)
    out[k] = v
    return out


def tree_remove(t, k):
    out = dict(t)
    out.pop(k, None)
    return out


def implies(a, b):
    return (not a) or b


# ---- paths --------------------------------------------------------------------

@ghost(decreases='i')
def norm(p: 'Path', i: 'Int') -> 'Path':
    """Lexical meaning of '..': normal form of the first i elements of p."""
    if i <= 0:
        return ()
    q = norm(p, i - 1)
    s = p[i - 1]
    if s == '..' and len(q) > 0:
        return q[:-1]
    return q + (s,)


@ghost(decreases='i')
def prefix_of(sub: 'Path', p: 'Path', i: 'Int') -> 'Bool':
    """sub[0..i) == p[0..i) elementwise (i <= len of both)."""
    if i <= 0:
        return True
    return prefix_of(sub, p, i - 1) and sub[i - 1] == p[i - 1]


@ghost(quantified=True)
def below(sub: 'Path', p: 'Path') -> 'Bool':
    """p lies at or below sub (sub is a prefix of p) -- non-recursive, usable under quantifiers"""
    return len(sub) <= len(p) and forall_range(0, len(sub), lambda j: p[j] == sub[j])


# ---- trees ----------------------------------------------------------------------

@ghost(decreases='len(p)')
def dicts_along(d: 'Tree', p: 'Path') -> 'Bool':
    """Every node met while following p in d (as far as it exists) is a dict, so that
    `head in d` / `d[head]` are well defined.  (On a str `in` would be a substring test.)"""
    if len(p) == 0:
        return True
    if not is_node(d):
        return False
    if has(d, p[0]):
        return dicts_along(child(d, p[0]), p[1:])
    return True


@ghost(decreases='len(p)')
def tget(d: 'Tree', p: 'Path', dflt: 'Tree') -> 'Tree':
    if len(p) == 0:
        return d
    if is_node(d) and has(d, p[0]):
        return tget(child(d, p[0]), p[1:], dflt)
    return dflt


@ghost(decreases='len(p)')
def tdel(d: 'Tree', p: 'Path') -> 'Tree':
    """d with the entry at p removed (nothing else changes)."""
    if len(p) == 0:
        return d
    if not (is_node(d) and has(d, p[0])):
        return d
    if len(p) == 1:
        return tree_remove(d, p[0])
    return tree_put(d, p[0], tdel(child(d, p[0]), p[1:]))


@ghost(decreases='len(p)')
def tset(d: 'Tree', p: 'Path', v: 'Tree') -> 'Tree':
    """d with v stored at p (len(p) >= 1), creating dicts on the way."""
    if len(p) == 0:
        return v
    if len(p) == 1:
        return tree_put(d, p[0], v)
    if has(d, p[0]):
        return tree_put(d, p[0], tset(child(d, p[0]), p[1:], v))
    return tree_put(d, p[0], tset(EMPTY_NODE, p[1:], v))


@ghost(decreases='len(p)')
def tupd(d: 'Tree', p: 'Path', fv: 'Tree') -> 'Tree':
    """update_in's result shape: the subtree at p replaced by fv, missing dicts created."""
    if len(p) == 0:
        return fv
    if has(d, p[0]):
        return tree_put(d, p[0], tupd(child(d, p[0]), p[1:], fv))
    return tree_put(d, p[0], tupd(EMPTY_NODE, p[1:], fv))


@ghost(decreases='len(p)')
def tsub(d: 'Tree', p: 'Path') -> 'Tree':
    """the subtree update_in hands to f: what is at p, {} where the path had to be created."""
    if len(p) == 0:
        return d
    if has(d, p[0]):
        return tsub(child(d, p[0]), p[1:])
    return tsub(EMPTY_NODE, p[1:])


@ghost(decreases='len(p)')
def settable(d: 'Tree', p: 'Path') -> 'Bool':
    """assoc_path / update_in can walk p in d: every existing node on the way is a dict."""
    if len(p) == 0:
        return True
    if not is_node(d):
        return False
    if len(p) == 1:
        return True
    if has(d, p[0]):
        return settable(child(d, p[0]), p[1:])
    return True


# ---- lemmas ---------------------------------------------------------------------------

@lemma(decreases='len(p)', props=['C17'])
def get_assoc(d: 'Tree', p: 'Path', v: 'Tree', dflt: 'Tree'):
    """get_in reads what assoc_path wrote."""
    requires(len(p) >= 1, is_node(d), settable(d, p))
    ensures(tget(tset(d, p, v), p, dflt) == v)
    if len(p) > 1:
        if has(d, p[0]):
            get_assoc(child(d, p[0]), p[1:], v, dflt)
        else:
            get_assoc(EMPTY_NODE, p[1:], v, dflt)


@lemma(decreases='len(p)', props=['C17'])
def delete_get(d: 'Tree', p: 'Path', dflt: 'Tree'):
    """after delete_in the entry is gone: get_in yields the default."""
    requires(len(p) >= 1, dicts_along(d, p))
    ensures(tget(tdel(d, p), p, dflt) == dflt)
    if len(p) > 1 and is_node(d) and has(d, p[0]):
        delete_get(child(d, p[0]), p[1:], dflt)




@ghost(decreases='len(p)')
def tmk(d: 'Tree', p: 'Path') -> 'Tree':
    """d after update_in walked p in it: missing dictionaries along p[:-1]... and p itself are created ({})"""
    if len(p) == 0:
        return d
    if has(d, p[0]):
        return tree_put(d, p[0], tmk(child(d, p[0]), p[1:]))
    return tree_put(d, p[0], tmk(EMPTY_NODE, p[1:]))


@ghost(decreases='len(p)')
def walkable(d: 'Tree', p: 'Path') -> 'Bool':
    """update_in can walk p in d: every node on the way (as far as it exists) is a dict"""
    if len(p) == 0:
        return True
    if not is_node(d):
        return False
    if has(d, p[0]):
        return walkable(child(d, p[0]), p[1:])
    return True
