"""Contract of Engine.run_for (C01, C02, C03, C04, C12).  See DESIGN.md Appendix A for the invariant set."""
from pyvc.spec import contract
from specs.c_engine import E, APPLY_FRAME

def PEND(p):
    return "is_alt(lookup(self.front, %s)['update'], 'pending')" % p

def TOK(p):
    return "alt(lookup(self.front, %s)['update'], 'pending')[0]" % p

def TIME(p):
    return "lookup(self.front, %s)['time']" % p

def TOKEN_OK(p, strict):
    """well-formed pending entry of the front at path p"""
    t = TOK(p)
    return ("(allocated({t}) and {t}.g_path == {p} and "
            "(({t}.g_empty and (not {t}.g_issued) and {time} <= self.global_time) or "
            " ((not {t}.g_empty) and {t}.g_live and {t}.g_issued and (not {t}.g_consumed) and {t}.g_due == {time} and "
            "  {t}.g_dt == {t}.g_due - {t}.g_start and {time} {op} self.global_time and {time} <= end_time)))"
            ).format(t=t, p=p, time=TIME(p), op='>' if strict else '>=')

LEDGER = "forall(lambda d: implies(allocated(d) and d.g_issued and d.g_consumed, d.g_at == d.g_due))"
NO_PENDING = "forall(lambda p: implies(has(self.front, p), (not %s) and %s <= self.global_time))" % (PEND('p'), TIME('p'))
EMITS_SORTED = ("forall_range(1, len(self.g_emits), lambda i: self.g_emits[i - 1] <= self.g_emits[i] and "
                "implies(self.emit_step == 1, self.g_emits[i - 1] < self.g_emits[i]))")
EMITS_PAST = "len(self.g_emits) == 0 or self.g_emits[len(self.g_emits) - 1] <= self.global_time"

OUTER = [
    'self.g_views_valid',
    'self.global_time <= end_time',
    'implies(force_complete, self.global_time < end_time)',
    'self.global_time >= old(self.global_time)',
    'end_time == old(self.global_time) + interval',
    # every pending entry is a well-formed real token that is due strictly in the future, inside this call
    "forall(lambda p: implies(has(self.front, p) and %s, (not %s.g_empty) and %s))" % (PEND('p'), TOK('p'), TOKEN_OK('p', True)),
    "forall(lambda p: implies(has(self.front, p) and not %s, %s <= self.global_time))" % (PEND('p'), TIME('p')),
    LEDGER, EMITS_SORTED, EMITS_PAST,
    # C02: once forced completion has reached the end, every front is at global time
    "implies(old(force_complete) and not force_complete, self.global_time == end_time and "
    "forall(lambda p: implies(has(self.front, p), %s == self.global_time)))" % TIME('p'),
    "implies(force_complete, old(force_complete))",
]

POLL = [
    'self.g_views_valid',
    # the set of fronts only grows by visited paths; unvisited entries are untouched
    "forall(lambda p: implies(has(self.front, p), has(self.process_paths, p)))",
    "forall(lambda p: implies(p in _done, has(self.front, p)))",
    "forall(lambda p: implies(not (p in _done), has(self.front, p) == has(entry(self.front), p) and "
    "implies(has(self.front, p), lookup(self.front, p) == lookup(entry(self.front), p))))",
    # pending entries are well formed (real tokens due in the future, or quiet markers)
    "forall(lambda p: implies(has(self.front, p) and %s, %s))" % (PEND('p'), TOKEN_OK('p', True)),
    "forall(lambda p: implies(has(self.front, p) and not %s, %s <= self.global_time))" % (PEND('p'), TIME('p')),
    # quiet markers are exactly the entries listed in quiet_paths (g_qidx: ghost index of a path in the list)
    "forall(lambda p: implies(has(self.front, p) and %s and %s.g_empty, (p in _done) and has(g_qidx, p)))" % (PEND('p'), TOK('p')),
    "forall(lambda p: implies(has(g_qidx, p), 0 <= lookup(g_qidx, p) and lookup(g_qidx, p) < len(quiet_paths) and "
    "quiet_paths[lookup(g_qidx, p)] == p and (p in _done)))",
    "forall_range(0, len(quiet_paths), lambda i: has(g_qidx, quiet_paths[i]) and lookup(g_qidx, quiet_paths[i]) == i and "
    "has(self.front, quiet_paths[i]) and %s and %s.g_empty)" % (PEND('quiet_paths[i]'), TOK('quiet_paths[i]')),
    # full_step is the distance to the next event among the visited paths, strictly positive
    "is_inf(full_step) or finite(full_step) > 0",
    "forall(lambda p: implies((p in _done) and has(self.front, p) and %s and not %s.g_empty, "
    "(not is_inf(full_step)) and finite(full_step) <= %s - self.global_time))" % (PEND('p'), TOK('p'), TIME('p')),
    # under forced completion every visited process is pending or quiet (nothing is deferred)
    "implies(force_complete, forall(lambda p: implies(p in _done, %s)))" % PEND('p'),
    LEDGER,
    'self.global_time <= end_time',
]


def IN_QUIET(p, upto):
    return "(has(g_qidx, %s) and lookup(g_qidx, %s) < %s)" % (p, p, upto)

SAME_KEYS = "forall(lambda p: has(self.front, p) == has(entry(self.front), p))"
PENDING_OK_GE = "forall(lambda p: implies(has(self.front, p) and %s, %s))" % (PEND('p'), TOKEN_OK('p', False))
NOT_PENDING_PAST = "forall(lambda p: implies(has(self.front, p) and not %s, %s <= self.global_time))" % (PEND('p'), TIME('p'))

# quiet loops that advance AND clear (branches "no event" and "past the interval")
QUIET_CLEAR = [
    SAME_KEYS,
    "forall(lambda p: implies(has(self.front, p) and %s, lookup(self.front, p)['time'] == self.global_time and "
    "is_alt(lookup(self.front, p)['update'], 'empty')))" % IN_QUIET('p', '_i'),
    "forall(lambda p: implies(has(self.front, p) and not %s, lookup(self.front, p) == lookup(entry(self.front), p)))"
    % IN_QUIET('p', '_i'),
]
# quiet loop of the middle branch: advances the time only
QUIET_ADVANCE = [
    SAME_KEYS,
    "forall(lambda p: implies(has(self.front, p), lookup(self.front, p)['update'] == lookup(entry(self.front), p)['update']))",
    "forall(lambda p: implies(has(self.front, p) and %s, lookup(self.front, p)['time'] == self.global_time))" % IN_QUIET('p', '_i'),
    "forall(lambda p: implies(has(self.front, p) and not %s, lookup(self.front, p)['time'] == lookup(entry(self.front), p)['time']))"
    % IN_QUIET('p', '_i'),
]
UTOK = "alt(updates[%s], 'pending')[0]"
ENTRY_UPD = "lookup(entry(self.front), %s)['update']"
ENTRY_TIME = "lookup(entry(self.front), %s)['time']"
FLUSH = [
    SAME_KEYS,
    "forall(lambda p: implies(has(self.front, p) and not (p in _done), lookup(self.front, p) == lookup(entry(self.front), p)))",
    "forall(lambda p: implies(has(self.front, p) and (p in _done) and %s <= self.global_time and is_alt(%s, 'pending'), "
    "lookup(self.front, p)['time'] == %s and is_alt(lookup(self.front, p)['update'], 'empty')))"
    % (ENTRY_TIME % 'p', ENTRY_UPD % 'p', ENTRY_TIME % 'p'),
    "forall(lambda p: implies(has(self.front, p) and (p in _done) and not (%s <= self.global_time and is_alt(%s, 'pending')), "
    "lookup(self.front, p) == lookup(entry(self.front), p)))" % (ENTRY_TIME % 'p', ENTRY_UPD % 'p'),
    # what has been collected: pending entries that were due, each a distinct, applicable token
    "forall_range(0, len(updates), lambda i: is_alt(updates[i], 'pending') and allocated(%s) and "
    "(%s.g_path in _done) and has(entry(self.front), %s.g_path) and %s == updates[i] and %s <= self.global_time and "
    "((%s.g_empty and not %s.g_issued) or (%s.g_live and %s.g_issued and (not %s.g_consumed) and %s.g_due == self.global_time)))"
    % (UTOK % 'i', UTOK % 'i', UTOK % 'i', ENTRY_UPD % (UTOK % 'i' + '.g_path'), ENTRY_TIME % (UTOK % 'i' + '.g_path'),
       UTOK % 'i', UTOK % 'i', UTOK % 'i', UTOK % 'i', UTOK % 'i', UTOK % 'i'),
    "forall_range(0, len(updates), lambda i: forall_range(0, i, lambda j: %s.g_path != %s.g_path))" % (UTOK % 'i', UTOK % 'j'),
]

contract(E + 'Engine.run_for', props=['C01', 'C02', 'C03', 'C04', 'C12'],
         instances=[{'name': 'no-precision', 'requires': ['is_none(self.global_time_precision)']}],
         types={'interval': 'Real', 'force_complete': 'Bool', 'end_time': 'Real', 'emit_time': 'Real',
                'full_step': 'XReal', 'quiet_paths': 'Seq[Path]', 'process_time': 'Real', 'process_timestep': 'Real',
                'future': 'Real', 'timestep': 'Real', 'process_delay': 'Real', 'store': 'Ref[Store]', 'states': 'Tree',
                'update': 'Tup[Ref[Defer],Ref[Store]]', 'updates': 'Seq[Upd]', 'paths': 'Seq[Path]', 'new_update': 'Upd',
                'quiet': 'Path', 'path': 'Path', 'process': 'Ref[Process]', 'advance': 'Front',
                'p': 'Path', 'd': 'Ref[Defer]', 'i': 'Int', 'j': 'Int', 'g_qidx': 'Map[Path,Int]', 'g_t0': 'Real'},
         requires=['interval > 0', 'self.g_views_valid', NO_PENDING, LEDGER, EMITS_SORTED, EMITS_PAST],
         modifies=['self.global_time', 'self.front', 'self.process_paths', 'self._step_paths', 'self.g_version',
                   'self.g_steps_run', 'self.g_emits', 'self.g_views_valid', 'Defer.g_live', 'Store.topology_view', 'Process.g_pending', 'Defer.defer', 'Defer.args',
                   'Defer.g_empty', 'Defer.g_issued', 'Defer.g_consumed', 'Defer.g_path', 'Defer.g_dt', 'Defer.g_start',
                   'Defer.g_due', 'Defer.g_at'] + APPLY_FRAME,
         alloc=True,
         ensures=['self.g_views_valid',                                               # C07: views current at every invocation
                  'self.global_time == old(self.global_time) + interval',            # C03: lands exactly on the end
                  NO_PENDING,                                                          # nothing crosses a call boundary
                  LEDGER,                                                              # C01: applied at the due time
                  EMITS_SORTED, EMITS_PAST,                                            # C12/C03: strictly increasing rows
                  "implies(old(force_complete), forall(lambda p: implies(has(self.front, p), %s == self.global_time)))"
                  % TIME('p')],                                                       # C02: _check_complete
         loops={
             0: {'invariant': OUTER},
             1: {'invariant': POLL},
             2: {'invariant': QUIET_CLEAR},
             3: {'invariant': QUIET_ADVANCE},
             4: {'invariant': FLUSH},
             5: {'invariant': ['self.global_time == entry(self.global_time)', EMITS_SORTED, EMITS_PAST,
                               'self.emit_step != 1']},
             6: {'invariant': QUIET_CLEAR},
         },
         ghost={
             # C03 progress: every iteration of the scheduler loop strictly advances the clock (so, with timesteps bounded
             # below by some delta > 0, the number of iterations of one call is bounded: termination)
             'full_step = math.inf': {'after': ['g_t0 = self.global_time']},
             'if force_complete and self.global_time == end_time': {'before': ['assert self.global_time > g_t0']},
             'quiet_paths = []': {'after': ['g_qidx = {}']},
             'quiet_paths.append(path)': {'after': ['g_qidx = map_put(g_qidx, path, len(quiet_paths) - 1)']},
             'process_timestep = process.calculate_timestep(states)': {'after': [
                 "assume_env(process_time + process_timestep > self.global_time, 'known finding F-C03-shrink: a process "
                 "that lags behind the clock (deferred across a call boundary) answers a timestep that ends before the "
                 "current global time')"]},
             "self.front[path]['update'] = update": {
                 'before': ["assert not (%s and not %s.g_empty)" % (PEND('path'), TOK('path'))],   # C01: never overwritten
                 'after': ['update[0].g_issued = True', 'update[0].g_start = process_time', 'update[0].g_due = future',
                           'assert update[0].g_dt == future - process_time']},             # C02: timestep == interval
             "self.front[path]['update'] = (EmptyDefer(), store)": {
                 'after': ["%s.g_path = path" % TOK('path')]},
         })

from pyvc.spec import external
external('clock:time', params=[], types={'ret': 'Real'}, why_trusted='wall clock, irrelevant to the modelled state')

contract(E + 'Engine.update', props=['C02', 'C01', 'C03'],
         instances=[{'name': 'no-precision', 'requires': ['is_none(self.global_time_precision)']}],
         types={'interval': 'Real', 'clock_start': 'Real', 'runtime': 'Real', 'p': 'Path', 'd': 'Ref[Defer]', 'i': 'Int'},
         requires=['interval > 0', 'self.g_views_valid', NO_PENDING, LEDGER, EMITS_SORTED, EMITS_PAST],
         modifies=['self.global_time', 'self.front', 'self.process_paths', 'self._step_paths', 'self.g_version',
                   'self.g_steps_run', 'self.g_emits', 'self.g_views_valid', 'Defer.g_live', 'Store.topology_view',
                   'Process.g_pending', 'Defer.defer', 'Defer.args', 'Defer.g_empty', 'Defer.g_issued', 'Defer.g_consumed',
                   'Defer.g_path', 'Defer.g_dt', 'Defer.g_start', 'Defer.g_due', 'Defer.g_at'] + APPLY_FRAME,
         alloc=True,
         ensures=['self.global_time == old(self.global_time) + interval', NO_PENDING, LEDGER,
                  "forall(lambda p: implies(has(self.front, p), %s == self.global_time))" % TIME('p')],
         note='update() = run_for(force_complete=True) followed by _check_complete: the postcondition of run_for implies '
              'the precondition of _check_complete, i.e. its two run-time assertions can never fire')

# ---- the constructor establishes the precondition of run_for (so that every call sequence composes from construction) ----
external(E + 'Engine._make_store',
         types={'store': 'Val', 'composite': 'Val', 'processes': 'Val', 'steps': 'Val', 'flow': 'Val', 'topology': 'Val'},
         modifies=['self.state', 'self.processes', 'self.steps', 'self.topology', 'self.flow', 'self.g_views_valid',
                   'Store.topology_view'],
         ensures=['self.g_views_valid'],
         why_trusted='generate_state / Store.build_topology_views build the hierarchy and the views (bounded-checked under C06/C07/C15)')
external(E + 'Engine._emit_configuration', types={}, why_trusted='emitter side: bounded-checked under C12')

contract(E + 'Engine.__init__', props=['C05', 'C12', 'C01', 'C03'],
         types={'composite': 'Val', 'processes': 'Val', 'steps': 'Val', 'flow': 'Val', 'topology': 'Val', 'store': 'Val',
                'initial_state': 'Val', 'experiment_id': 'Val', 'experiment_name': 'Val', 'metadata': 'Val', 'description': 'Val',
                'emitter': 'Val', 'store_schema': 'Val', 'emit_topology': 'Bool', 'emit_processes': 'Bool', 'emit_config': 'Bool',
                'emit_step': 'Real', 'display_info': 'Bool', 'progress_bar': 'Bool', 'global_time_precision': 'Opt[Int]',
                'profile': 'Bool', 'initial_global_time': 'Real', 'p': 'Path', 'i': 'Int'},
         requires=['len(self.g_emits) == 0', 'self.g_steps_run == 0'],
         abstract=['self.profiler', 'if profile:', 'self.stats_objs', 'self.stats:', 'self.stats =', 'self.experiment_id', 'self.initial_state',
                   'self.experiment_name', 'self.metadata', 'self.description', 'self.time_created', 'if self.display_info:',
                   'self.process_paths:', 'self.process_paths =', 'self._step_graph', 'self._step_paths', 'self._find_process_paths',
                   'self._find_step_paths', 'self._validate_steps_and_flow', 'emitter_config', 'if isinstance(emitter_config',
                   'self.emitter', 'if store_schema:', 'self.emit_topology', 'self.emit_processes', 'self.emit_config'],
         modifies=['self.global_time', 'self.front', 'self.process_paths', 'self._step_paths', 'self.g_version', 'self.g_steps_run',
                   'self.g_emits', 'self.g_views_valid', 'self.emit_step', 'self.display_info', 'self.global_time_precision',
                   'self.progress_bar', 'self.state', 'self.processes', 'self.steps', 'self.topology', 'self.flow',
                   'Store.topology_view', 'Process.g_pending', 'Defer.defer', 'Defer.args', 'Defer.g_empty', 'Defer.g_issued',
                   'Defer.g_consumed', 'Defer.g_path', 'Defer.g_dt', 'Defer.g_live'] +
         [m for m in APPLY_FRAME if not m.startswith('self.')],
         alloc=True,
         ensures=[
             # exactly the precondition of run_for ...
             'self.g_views_valid', NO_PENDING, EMITS_SORTED, EMITS_PAST,
             'self.global_time == initial_global_time',
             # C03: a new engine has simulated every process exactly up to its initial time, with nothing pending
             "forall(lambda p: implies(has(self.front, p), lookup(self.front, p)['time'] == initial_global_time and "
             "is_alt(lookup(self.front, p)['update'], 'empty')))",
             # ... one step phase before the first row, and exactly one row, for the initial time (C05 / C12)
             'self.g_steps_run == 1', 'len(self.g_emits) == 1', 'self.g_emits[0] == initial_global_time'])
