"""Bounded driver for C16 (composites embed, merge and load the same way through every entry point).

LABEL: bounded stand-in.  Bound: a composer with 2 processes + 1 step (+flow), embedding paths of length 0..2, merge
sequences of 1..4 merges mixing composites and loose parts (one template dict merged at several paths), later merges
touching earlier paths, the three engine entry points, one schema override.
Oracle: a model union computed on deep copies; snapshots of merged-in composites / argument dicts before and after;
trajectory equality (paths re-rooted).
"""
import argparse, copy, json, random
from bounded import lib as L
from vivarium.core.composer import Composer, Composite
from vivarium.core.engine import Engine
from vivarium.core.process import Process, Step


class Grow(Process):
    defaults = {'timestep': 1.0, 'rate': 1}
    def ports_schema(self):
        return {'pool': {'m': {'_default': 1, '_emit': True}}}
    def next_update(self, timestep, states):
        return {'pool': {'m': self.parameters['rate']}}


class Leak(Process):
    defaults = {'timestep': 2.0}
    def ports_schema(self):
        return {'pool': {'m': {'_default': 1, '_emit': True}}, 'env': {'e': {'_default': 0, '_emit': True}}}
    def next_update(self, timestep, states):
        return {'pool': {'m': -1}, 'env': {'e': 1}}


class Double(Step):
    def ports_schema(self):
        return {'pool': {'m': {'_default': 1}}, 'out': {'d': {'_default': 0, '_updater': 'set', '_emit': True}}}
    def next_update(self, timestep, states):
        return {'out': {'d': 2 * states['pool']['m']}}


class Bump(Step):
    def ports_schema(self):
        return {'out': {'x': {'_default': 0, '_updater': 'accumulate', '_emit': True}}}
    def next_update(self, timestep, states):
        return {'out': {'x': 1}}


class Follow(Step):
    # in one execution layer with Bump it reads x from BEFORE Bump ran; after Bump it reads the new x
    def ports_schema(self):
        return {'out': {'x': {'_default': 0}, 'y': {'_default': 0, '_updater': 'set', '_emit': True}}}
    def next_update(self, timestep, states):
        return {'out': {'y': states['out']['x']}}


class Cell(Composer):
    defaults = {'rate': 1, 'chain': False}
    def generate_processes(self, config):
        return {'grow': Grow({'rate': config['rate']}), 'leak': Leak()}
    def generate_steps(self, config):
        return {'double': Double(), 'bump': Bump(), 'follow': Follow()}
    def generate_flow(self, config):
        # two root steps of the flow (same layer), or a chain
        return {'double': [], 'bump': [], 'follow': [('bump',)] if config['chain'] else []}
    def generate_topology(self, config):
        return {'grow': {'pool': ('pool',)}, 'leak': {'pool': ('pool',), 'env': ('env',)},
                'double': {'pool': ('pool',), 'out': ('out',)}, 'bump': {'out': ('out',)}, 'follow': {'out': ('out',)}}


def tget(d, path):
    for p in path:
        d = d[p]
    return d


def struct(c):
    """structure of a composite: nested dicts with process leaves replaced by their class name + id"""
    def conv(v):
        if isinstance(v, dict):
            return {k: conv(x) for k, x in v.items()}
        if isinstance(v, Process):
            return (type(v).__name__, id(v))
        return v
    return {k: conv(c[k]) for k in ('processes', 'steps', 'flow', 'topology', 'state')}


def deep_union(a, b):
    out = {k: (deep_union(v, {}) if isinstance(v, dict) else v) for k, v in a.items()}
    for k, v in b.items():
        if isinstance(v, dict) and isinstance(out.get(k), dict):
            out[k] = deep_union(out[k], v)
        elif isinstance(v, dict):
            out[k] = deep_union({}, v)
        else:
            out[k] = v
    return out


def strip_empty(d):
    if isinstance(d, dict):
        out = {k: strip_empty(v) for k, v in d.items()}
        return {k: v for k, v in out.items() if not (isinstance(v, dict) and not v)}
    return d


def at(path, d):
    for p in reversed(path):
        d = {p: d}
    return d


def run_traj(eng, path, n=4):
    eng.update(n)
    data = eng.emitter.get_data()
    out = {}
    for t, row in data.items():
        r = row
        for p in path:
            r = r.get(p, {})
        out[t] = json.loads(json.dumps(r, sort_keys=True, default=repr))
    return out


def check(sd):
    rng = random.Random(sd)
    fails = []
    # ---- embedding: generate at a path == generate at the root
    path = tuple(rng.sample(['lab', 'dish', 'x'], rng.choice([0, 1, 2])))
    comp = Cell({'rate': rng.choice([1, 3]), 'chain': rng.random() < 0.4})
    c_root = comp.generate()
    c_path = comp.generate(path=path)
    for part in ('processes', 'steps', 'flow', 'topology'):
        try:
            sub = tget(c_path[part], path)
        except (KeyError, TypeError):
            fails.append('%s of the composite generated at %s are not under that path' % (part, path))
            continue
        if set(sub) != set(c_root[part]):
            fails.append('%s generated at %s are %s, at the root %s' % (part, path, sorted(sub), sorted(c_root[part])))
        outside = {k for k in c_path[part] if not path or k != path[0]}
        if path and outside:
            fails.append('%s generated at %s has entries outside the path: %s' % (part, path, sorted(outside)))
    try:
        t_root = run_traj(Engine(composite=comp.generate(), display_info=False), ())
        t_path = run_traj(Engine(composite=comp.generate(path=path), display_info=False), path)
        if t_root != t_path:
            fails.append('the composite embedded at %s runs differently than at the root' % (path,))
    except Exception as e:
        fails.append('running the embedded composite raised %s: %s' % (type(e).__name__, str(e)[:160]))
    # ---- three entry points
    try:
        c = comp.generate()
        t1 = run_traj(Engine(composite=c, display_info=False), ())
        c2 = comp.generate()
        t2 = run_traj(Engine(processes=c2['processes'], steps=c2['steps'], flow=c2['flow'], topology=c2['topology'],
                             display_info=False), ())
        c3 = comp.generate()
        t3 = run_traj(Engine(store=c3.generate_store(), display_info=False), ())
        if not (t1 == t2 == t3):
            fails.append('engines built from the Composite, from its parts and from the generated store differ')
    except Exception as e:
        fails.append('entry points raised %s: %s' % (type(e).__name__, str(e)[:160]))
    if fails:
        return fails[:3]
    # ---- merge sequences
    B = Composite({})
    model = {k: {} for k in ('processes', 'steps', 'flow', 'topology', 'state')}
    kept = []            # (object, snapshot) that must never change: merged-in composites and argument dicts
    template_topo = {'grow': {'pool': ('pool',)}}
    template_state = {'pool': {'m': 5}, 'env': {'e': 0}}
    kept.append(('template topology', template_topo, copy.deepcopy(template_topo)))
    kept.append(('template state', template_state, copy.deepcopy(template_state)))
    paths_used = []
    for step in range(rng.choice([1, 2, 3, 4])):
        p = tuple(rng.sample(['agents', '1', '2', 'c'], rng.choice([0, 1, 2])))
        kind = rng.choice(['composite', 'loose', 'template', 'touch'])
        if kind == 'composite':
            A = Cell({'rate': 2}).generate()
            A['state'] = {'pool': {'m': rng.choice([3, 4])}}
            kept.append(('merged-in composite', A, struct(A)))
            B.merge(composite=A, path=p)
            for part in model:
                model[part] = deep_union(model[part], at(p, struct(A)[part]))
        elif kind == 'loose':
            procs = {'extra%d' % step: Grow()}
            topo = {'extra%d' % step: {'pool': ('pool',)}}
            st = {'pool': {'m': 7}}
            kept.append(('loose processes', procs, copy.copy(procs)))
            kept.append(('loose topology', topo, copy.deepcopy(topo)))
            B.merge(processes=procs, topology=topo, state=st, path=p)
            model['processes'] = deep_union(model['processes'], at(p, {k: (type(v).__name__, id(v)) for k, v in procs.items()}))
            model['topology'] = deep_union(model['topology'], at(p, topo))
            model['state'] = deep_union(model['state'], at(p, st))
        elif kind == 'template':
            g = Grow()
            B.merge(processes={'grow': g}, topology=template_topo, state=template_state, path=p)
            model['processes'] = deep_union(model['processes'], at(p, {'grow': ('Grow', id(g))}))
            model['topology'] = deep_union(model['topology'], at(p, copy.deepcopy(kept[0][2])))
            model['state'] = deep_union(model['state'], at(p, copy.deepcopy(kept[1][2])))
        else:
            if not paths_used:
                continue
            p = rng.choice(paths_used)
            B.merge(topology={'grow': {'pool': ('other_pool',)}}, state={'pool': {'m': 99}}, path=p)
            model['topology'] = deep_union(model['topology'], at(p, {'grow': {'pool': ('other_pool',)}}))
            model['state'] = deep_union(model['state'], at(p, {'pool': {'m': 99}}))
        paths_used.append(p)
        got = struct(B)
        for part in model:
            if strip_empty(got[part]) != strip_empty(model[part]):
                fails.append('after merge #%d (%s at %s) %s of the result is %r, the union is %r'
                             % (step, kind, p, part, got[part], model[part]))
        for name, obj, snap in kept:
            cur = struct(obj) if isinstance(obj, Composite) else obj
            if cur != snap:
                fails.append('after merge #%d (%s at %s) the %s was changed: %r -> %r' % (step, kind, p, name, snap, cur))
        if fails:
            break
    if fails:
        return fails[:3]
    # ---- a template with an EMPTY nested compartment merged into several composites; a later merge through that key into
    #      one of them must not show up in the template or in the siblings
    try:
        template = Composite({'processes': {'feed': Grow(), 'agents': {}}, 'topology': {'feed': {'pool': ('pool',)}, 'agents': {}},
                              'state': {'pool': {'m': 1}, 'agents': {}}})
        snap_t = struct(template)
        where = tuple(rng.sample(['east', 'west'], rng.choice([0, 1])))
        colony_a, colony_b = Composite({}), Composite({})
        colony_a.merge(composite=template, path=where)
        colony_b.merge(composite=template, path=where)
        snap_b = struct(colony_b)
        agent = Cell({'rate': 2}).generate()
        colony_a.merge(composite=agent, path=where + ('agents', '1'))
        if struct(template) != snap_t:
            fails.append('a merge into a composite built from a template changed the template: processes %r -> %r'
                         % (snap_t['processes'], struct(template)['processes']))
        if struct(colony_b) != snap_b:
            fails.append('a merge into one composite changed its sibling built from the same template: %r -> %r'
                         % (snap_b['processes'], struct(colony_b)['processes']))
        if 'grow' not in tget(colony_a['processes'], where + ('agents', '1')):
            fails.append('the merged agent did not arrive at %s' % (where + ('agents', '1'),))
    except Exception as e:
        fails.append('template merges raised %s: %s' % (type(e).__name__, str(e)[:160]))
    if fails:
        return fails[:3]
    # ---- using a composite does not change it: initial_state(config) / generate_store(config) with an initial-state
    #      override that reaches into the composite's own nested state, then the composite is used again
    try:
        before = struct(B)
        plain = copy.deepcopy(B.initial_state())
        p = paths_used[0] if paths_used else ()
        override = at(p, {'pool': {'m': 12345, 'brand_new': 1}, 'elsewhere': {'q': 2}})
        how = rng.choice(['initial_state', 'generate_store'])
        if how == 'initial_state':
            B.initial_state({'initial_state': copy.deepcopy(override)})
        else:
            B.generate_store({'initial_state': copy.deepcopy(override)})
        if struct(B) != before:
            fails.append('%s(config with an initial_state override) changed the composite itself: state %r -> %r'
                         % (how, before['state'], struct(B)['state']))
        again = B.initial_state()
        if json.dumps(again, sort_keys=True, default=repr) != json.dumps(plain, sort_keys=True, default=repr):
            fails.append('after one %s(config) the composite gives a different initial_state(): %r, before %r'
                         % (how, again, plain))
    except Exception as e:
        fails.append('re-using the merged composite raised %s: %s' % (type(e).__name__, str(e)[:160]))
    return fails[:3]


# ---- a schema override reaches exactly the process it names ---------------------------------------------------------
LEVEL_SCHEMA = {'tank': {'level': {'_default': 3.0, '_emit': True}}}      # one table shared by every Feeder (a class constant)


class Feeder(Process):
    defaults = {'timestep': 1.0}

    def ports_schema(self):
        return LEVEL_SCHEMA

    def next_update(self, timestep, states):
        return {'tank': {'level': 1.0}}


class Pair(Composer):
    def generate_processes(self, config):
        return {'left': Feeder(), 'right': Feeder()}

    def generate_topology(self, config):
        return {'left': {'tank': ('lt',)}, 'right': {'tank': ('rt',)}}


def check_override_scope(path):
    """two processes whose ports_schema() returns the same table; a composer-level `_schema` names only one of them: the other
    keeps its declaration, the shared table is what it was, and a later composer without any override is unaffected"""
    fails = []
    pristine = copy.deepcopy(LEVEL_SCHEMA)
    try:
        comp = Pair({'_schema': {'left': {'tank': {'level': {'_default': 10.0}}}}}).generate(path=path)
        eng = Engine(composite=comp, display_info=False, progress_bar=False, emitter='null')
        eng.update(1)
        v = eng.state.get_value()
        for p_ in path:
            v = v[p_]
        if (v['lt']['level'], v['rt']['level']) != (11.0, 4.0):
            fails.append('an override naming only `left` (default 10) gives left/right levels %r / %r after one tick, expected 11.0 / 4.0'
                         % (v['lt']['level'], v['rt']['level']))
        if LEVEL_SCHEMA != pristine:
            fails.append('the table returned by ports_schema() was modified by the override: %r' % (LEVEL_SCHEMA,))
        eng2 = Engine(composite=Pair({}).generate(path=path), display_info=False, progress_bar=False, emitter='null')
        eng2.update(1)
        v = eng2.state.get_value()
        for p_ in path:
            v = v[p_]
        if (v['lt']['level'], v['rt']['level']) != (4.0, 4.0):
            fails.append('a later composer WITHOUT any override gives levels %r / %r, expected 4.0 / 4.0'
                         % (v['lt']['level'], v['rt']['level']))
    except Exception as e:
        fails.append('override scope scenario raised %s: %s' % (type(e).__name__, str(e)[:160]))
    finally:
        LEVEL_SCHEMA.clear()
        LEVEL_SCHEMA.update(copy.deepcopy(pristine))
    return fails[:3]


class Nest(Composer):
    """the usual shape of a composer configuration: one sub-dictionary of parameters per process"""
    defaults = {'grow': {'rate': 1, 'timestep': 1.0}, 'scale': {'factor': 2.0}}

    def generate_processes(self, config):
        return {'grow': Grow(config['grow'])}

    def generate_topology(self, config):
        return {'grow': {'pool': ('pool',)}}


def check_composer_reuse(path):
    """options passed to ONE generate() call are for that composite only: the composer generates the same composite afterwards as
    a fresh composer does, at the root and at a path"""
    fails = []
    try:
        comp = Nest({})
        special = comp.generate({'grow': {'rate': 3}}, path=path)
        again = comp.generate(path=path)
        fresh = Nest({}).generate(path=path)

        def rate(c):
            d = c['processes']
            for p_ in path:
                d = d[p_]
            return d['grow'].parameters['rate']
        if rate(special) != 3:
            fails.append('generate({grow: {rate: 3}}) built a process with rate %r' % (rate(special),))
        if rate(again) != rate(fresh) or rate(fresh) != 1:
            fails.append('after one generate() call with the option grow/rate=3 the same composer generates rate %r; a fresh composer '
                         'generates %r (its configuration says 1)' % (rate(again), rate(fresh)))
        if comp.config != Nest({}).config:
            fails.append('the composer configuration was changed by generate(config): %r' % (comp.config,))
    except Exception as e:
        fails.append('composer re-use raised %s: %s' % (type(e).__name__, str(e)[:160]))
    return fails[:3]


def check_flag_then_children(kind):
    """a schema key such as `_emit` is declared on a store BEFORE it gets children (by a path that runs through it, or from the
    initial state of a glob port): the children are built with their declared defaults all the same"""
    from vivarium.core.store import generate_state

    class Obs(Process):
        def ports_schema(self):
            return {'cell': {'_emit': True}}

        def next_update(self, timestep, states):
            return {}

    class Inner(Process):
        def ports_schema(self):
            return {'internal': {'mass': {'_default': 1.0}, 'volume': {'_default': 2.0}}}

        def next_update(self, timestep, states):
            return {}

    class Glob(Process):
        def ports_schema(self):
            return {'agents': {'_emit': True, '*': {'x': {'_default': 3}, 'y': {'_default': 4}}}}

        def next_update(self, timestep, states):
            return {}
    try:
        if kind == 'path':
            st = generate_state({'obs': Obs(), 'inner': Inner()}, {'obs': {'cell': ('cell',)}, 'inner': {'internal': ('cell', 'internal')}},
                                {'cell': {'internal': {'mass': 5.0}}})
            got, want = st.get_value()['cell']['internal'], {'mass': 5.0, 'volume': 2.0}
        else:
            st = generate_state({'g': Glob()}, {'g': {'agents': ('agents',)}}, {'agents': {'1': {'x': 10}, '2': {}}})
            got, want = st.get_value()['agents'], {'1': {'x': 10, 'y': 4}, '2': {'x': 3, 'y': 4}}
    except Exception as e:
        return ['flag-then-children (%s) raised %s: %s' % (kind, type(e).__name__, str(e)[:160])]
    if got != want:
        return ['a store that carried a schema key (_emit) before it got children (%s): built as %r, declared defaults / initial state give %r'
                % (kind, got, want)]
    return []


def check_fresh_composites():
    """a composite that was never given any state has none -- whatever was merged into OTHER composites before: an engine built
    from it holds the declared defaults"""
    fails = []
    try:
        first = Cell({}).generate()
        first.merge(state={'pool': {'m': 40}, 'env': {'e': 5}})
        other = Composite({'processes': {'grow': Grow()}, 'topology': {'grow': {'pool': ('pool',)}}})
        other.merge(composite=Composite({'state': {'pool': {'m': 77}}}))
        later = Cell({}).generate()
        loose = Composite({'processes': {'grow': Grow()}, 'topology': {'grow': {'pool': ('pool',)}}})
        for name, c in (('generated by a composer', later), ('built from processes and topology', loose)):
            if c['state'] != {}:
                fails.append('a composite %s, never given any state, holds the state %r (merged into another composite earlier)'
                             % (name, c['state']))
            eng = Engine(composite=c, display_info=False, progress_bar=False, emitter='null')
            m = eng.state.get_value()['pool']['m']
            if m != 1:
                fails.append('engine from a composite %s: pool/m starts at %r, its declared default is 1' % (name, m))
    except Exception as e:
        fails.append('fresh-composite scenario raised %s: %s' % (type(e).__name__, str(e)[:160]))
    return fails[:3]


def main():
    ap = argparse.ArgumentParser()
    ap.add_argument('--tier', default='quick'); ap.add_argument('--seed', type=int, default=0)
    ap.add_argument('--out', default='out/replays'); ap.add_argument('--replay', default=None)
    ap.add_argument('--only', default=None); ap.add_argument('--prop', default='C16')
    a = ap.parse_args()
    if a.replay:
        d = json.load(open(a.replay))['scenario']
        if 'fixed' in d:
            fails = check_fresh_composites() if d['fixed'] == 'fresh' else check_flag_then_children(d['path'][0]) if d['fixed'] == 'flag' \
                else check_composer_reuse(tuple(d['path']))
            L.emit_result({'status': 'reproduced' if fails else 'not-reproduced', 'failed': fails})
            return
        fails = check_override_scope(tuple(d['override_path'])) if 'override_path' in d else check(d['rng'])
        L.emit_result({'status': 'reproduced' if fails else 'not-reproduced', 'failed': fails})
        return
    n = 150 if a.tier == 'quick' else 3000
    evaluations = 0; failures = []; samples = []; distinct = set()
    fixed = [('fresh', None), ('flag', ('path',)), ('flag', ('glob',))] + ([] if a.only == 'fresh' else [('reuse', ()), ('reuse', ('colony', 'std'))])
    for kind, path in fixed:
        evaluations += 1
        distinct.add('%s-%s' % (kind, path))
        fails = check_fresh_composites() if kind == 'fresh' else check_flag_then_children(path[0]) if kind == 'flag' else check_composer_reuse(path)
        if fails:
            rp = L.write_replay(a.out, a.prop, '%s%s' % (kind, path[0] if kind == 'flag' else len(path or ())), {'fixed': kind, 'path': list(path or ())}, fails,
                                extra={'driver': 'bounded.c16'})
            failures.append({'id': '%s.bounded.%s: %s' % (a.prop, kind, fails[0][:300]), 'replay': rp})
    if a.only == 'fresh':
        L.emit_result({'status': 'violated' if failures else 'ok', 'evaluations': evaluations, 'distinct_nontrivial': len(distinct),
                       'failures': failures, 'samples': [{'fixed': 'fresh composites after state was merged into other composites'}],
                       'rule': 'fixed scenario: composites never given state, after state was merged into others; distinct by case'})
        return
    for i in range(n):
        sd = 'c16-%d-%d' % (a.seed, i)
        evaluations += 1
        fails = check(sd)
        distinct.add(sd)
        if len(samples) < 2:
            samples.append({'seed': sd})
        if fails:
            rp = L.write_replay(a.out, 'C16', 'merge%d' % i, {'rng': sd}, fails, extra={'driver': 'bounded.c16'})
            failures.append({'id': 'C16.bounded.composites#%d: %s' % (i, fails[0][:300]), 'replay': rp})
            if len(failures) >= 3:
                break
    for pi, path in enumerate([(), ('agents', '1')]):
        if len(failures) >= 3:
            break
        evaluations += 1
        distinct.add('override-scope-%d' % pi)
        fails = check_override_scope(path)
        if fails:
            rp = L.write_replay(a.out, 'C16', 'override%d' % pi, {'override_path': list(path)}, fails, extra={'driver': 'bounded.c16'})
            failures.append({'id': 'C16.bounded.override-scope#%d: %s' % (pi, fails[0][:300]), 'replay': rp})
    L.emit_result({'status': 'violated' if failures else 'ok', 'evaluations': evaluations,
                   'distinct_nontrivial': len(distinct), 'failures': failures, 'samples': samples,
                   'rule': 'seeded random embedding paths and merge sequences; every case checks embedding, the three entry '
                           'points and a merge sequence; distinct by seed'})


if __name__ == '__main__':
    main()
