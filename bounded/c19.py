"""Bounded driver for C19 (timeline events fire once, on time, in any listing order) on the real engine.

LABEL: bounded stand-in.  Bound: timelines of <= 4 (quick) / <= 5 (thorough) events drawn from a pool with
duplicate times and several events between two ticks, ALL permutations of each chosen multiset, timeline
timesteps {1, 2, 4, 20}, run length 12; values include lists and falsy values.
Oracle: reference semantics -- at each tick (clock c) every not-yet-fired event with t <= c fires, in time
order (listing order among equal times), setting its variables; compared with the emitted values.
"""
import argparse, copy, itertools, json, random
from bounded import lib as L
from vivarium.core.engine import Engine
from vivarium.core.process import Process
from vivarium.processes.timeline import TimelineProcess

POOL = [(0, {('s', 'a'): 1}), (10, {('s', 'a'): 2}), (5, {('s', 'b'): [3]}), (5, {('s', 'b'): [4], ('s', 'c'): 7}),
        (6, {('s', 'a'): 0}), (3, {('s', 'c'): False, ('s', 'a'): 5}), (7.5, {('s', 'b'): []}), (1, {('s', 'c'): 'x'})]
VARS = ['a', 'b', 'c']


class Holder(Process):
    defaults = {'timestep': 100.0}
    def ports_schema(self):
        return {'s': {v: {'_default': -1, '_updater': 'set', '_emit': True} for v in VARS}}
    def next_update(self, timestep, states):
        return {}


def run_real(events, dt, total):
    tl = TimelineProcess({'timeline': copy.deepcopy(events), 'time_step': dt})
    eng = Engine(processes={'timeline': tl, 'holder': Holder()},
                 topology={'timeline': {'global': ('global',), 's': ('s',)}, 'holder': {'s': ('s',)}},
                 display_info=False)
    eng.update(total)
    data = eng.emitter.get_data()
    return {t: {v: row['s'][v] for v in VARS} for t, row in data.items()}


def run_real_nocopy(events, dt, total):
    tl = TimelineProcess({'timeline': events, 'time_step': dt})
    eng = Engine(processes={'timeline': tl, 'holder': Holder()},
                 topology={'timeline': {'global': ('global',), 's': ('s',)}, 'holder': {'s': ('s',)}},
                 display_info=False)
    eng.update(total)
    data = eng.emitter.get_data()
    return {t: {v: row['s'][v] for v in VARS} for t, row in data.items()}


def run_real_twice(events, dt, total):
    """the SAME TimelineProcess instance in a second engine with a fresh state: every event fires again from time 0"""
    tl = TimelineProcess({'timeline': copy.deepcopy(events), 'time_step': dt})
    out = []
    for _ in range(2):
        eng = Engine(processes={'timeline': tl, 'holder': Holder()},
                     topology={'timeline': {'global': ('global',), 's': ('s',)}, 'holder': {'s': ('s',)}},
                     display_info=False)
        eng.update(total)
        data = eng.emitter.get_data()
        out.append({t: {v: row['s'][v] for v in VARS} for t, row in data.items()})
    return out


def reference(events, dt, total):
    """values of the variables at each emitted time"""
    vals = {v: -1 for v in VARS}
    fired = set()
    out = {0.0: dict(vals)}
    clock = 0.0
    t = 0.0
    while t < total - 1e-12:
        step = min(dt, total - t)
        # the tick starts at engine time t with the process clock = t; due events fire; applied at t+step
        due = sorted([(ev[0], i) for i, ev in enumerate(events) if ev[0] <= clock and i not in fired])
        for _, i in due:
            fired.add(i)
            for path, v in events[i][1].items():
                vals[path[1]] = copy.deepcopy(v)
        t += step
        clock += step
        out[t] = copy.deepcopy(vals)
    return out


def check(events, dt, total, shared=False):
    fails = []
    if shared:
        # the caller re-uses ONE dictionary object for several events (a periodic timeline built from templates)
        byrepr = {}
        events = [(t, byrepr.setdefault(repr(sorted(ch.items(), key=repr)), ch)) for t, ch in events]
    before = copy.deepcopy(events)
    try:
        real = run_real_nocopy(events, dt, total) if shared else run_real(events, dt, total)
    except Exception as e:
        return ['engine raised %s: %s' % (type(e).__name__, str(e)[:200])]
    if shared and events != before:
        fails.append('the timeline handed in by the caller was modified: %r -> %r' % (before, events))
    ref = reference(before, dt, total)
    for t, want in ref.items():
        got = real.get(t)
        if got is None:
            fails.append('no emitted row at t=%s' % t)
        elif got != want:
            fails.append('at t=%s variables are %s, expected %s' % (t, got, want))
    if not fails and not shared:
        try:
            first, second = run_real_twice(before, dt, total)
            if second != first:
                t = next((t for t in first if second.get(t) != first[t]), None)
                fails.append('the same timeline process in a second engine (fresh state): at t=%s variables are %s, in the first '
                             'run %s: events consumed by the first run were not re-armed' % (t, second.get(t), first.get(t)))
        except Exception as e:
            fails.append('second engine with the same timeline process raised %s: %s' % (type(e).__name__, str(e)[:160]))
    return fails[:4]


# ---- event values that are mutable objects, consumed by another process through plain 'accumulate' updates -----------
class Consumer(Process):
    defaults = {'timestep': 1.0, 'kind': 'array'}

    def ports_schema(self):
        import numpy as np
        d = np.zeros(2) if self.parameters['kind'] == 'array' else []
        return {'fields': {'glc': {'_default': d, '_emit': True}}}

    def next_update(self, timestep, states):
        import numpy as np
        return {'fields': {'glc': -0.25 * np.ones(2) if self.parameters['kind'] == 'array' else [0.5]}}


CONSUMED_CASES = [(kind, pattern, dt) for kind in ('array', 'list')
                  for pattern in ([(0, 'A'), (3, 'B'), (6, 'A')], [(1, 'A'), (2, 'A'), (5, 'B'), (5.5, 'A')], [(0, 'A'), (4, 'A')])
                  for dt in (1, 2)]


def check_consumed(kind, pattern, dt, total=9):
    """the user builds a value once and lists it in several events: each event sets the variable to the value WRITTEN in the
    timeline, so the history equals the one obtained from separate, equal objects; the timeline still holds its values"""
    import numpy as np

    def mk(tag):
        base = [1.0, 1.0] if tag == 'A' else [5.0, 5.0]
        return np.array(base) if kind == 'array' else list(base)

    def run(events):
        tl = TimelineProcess({'timeline': events, 'time_step': dt})
        eng = Engine(processes={'timeline': tl, 'consumer': Consumer({'kind': kind})},
                     topology={'timeline': {'global': ('global',), 'fields': ('fields',)}, 'consumer': {'fields': ('fields',)}},
                     display_info=False)
        eng.update(total)
        hist = eng.emitter.get_timeseries()['fields']['glc']
        return [list(map(float, v)) for v in hist], tl
    objs = {'A': mk('A'), 'B': mk('B')}
    shared = [(t, {('fields', 'glc'): objs[tag]}) for t, tag in pattern]
    separate = [(t, {('fields', 'glc'): mk(tag)}) for t, tag in pattern]
    fails = []
    try:
        hs, tl = run(shared)
        hp, _ = run(separate)
    except Exception as e:
        return ['engine raised %s: %s' % (type(e).__name__, str(e)[:200])]
    if hs != hp:
        fails.append('one %s object listed in several events gives the history %s; separate equal objects give %s: '
                     'an event did not set the value written in the timeline' % (kind, hs, hp))
    for (t, tag), ev in zip(pattern, tl.parameters['timeline']):
        held = list(map(float, ev[1][('fields', 'glc')]))
        if held != list(map(float, mk(tag))):
            fails.append('after the run the timeline holds %s for the event at t=%s, it was given %s' % (held, t, list(mk(tag))))
    for tag in objs:
        if list(map(float, objs[tag])) != list(map(float, mk(tag))):
            fails.append('the value object the caller listed in the timeline was modified: %s' % list(objs[tag]))
    return fails[:3]


# ---- a timeline inside an agent that is moved (engulfed / released) while it runs ------------------------------------------
class AgentMover(Process):
    defaults = {'timestep': 1.0, 'script': {}}

    def __init__(self, parameters=None):
        super().__init__(parameters)
        self.calls = 0

    def ports_schema(self):
        return {'one': {'*': {}}, 'two': {'*': {}}}

    def next_update(self, timestep, states):
        self.calls += 1
        mv = self.parameters['script'].get(self.calls)
        if not mv or mv[0] not in states[mv[1]]:
            return {}
        return {mv[1]: {'_move': [{'source': (mv[0],), 'target': (mv[2],)}]}}


class PoolGrower(Process):
    defaults = {'timestep': 1.0}

    def ports_schema(self):
        return {'pool': {'x': {'_default': 0, '_emit': True}}}

    def next_update(self, timestep, states):
        return {'pool': {'x': 1}}


MOVED_CASES = [{'events': ev, 'moves': mv} for ev in ([[1, 100]], [[1, 100], [4, 500]], [[0, 7], [2, 50]])
               for mv in ({'3': ['a', 'one', 'two']}, {'2': ['a', 'one', 'two']}, {})]
# (a second move would be applied BEFORE the updates of the agent's processes, which are listed after the mover once the agent
#  has been moved: that is the region of the recorded finding F-C01-move-inflight, witnessed separately)


def check_moved_timeline(case, total=8):
    """an agent that carries a timeline and a process growing the same variable is moved to another site while it runs: every
    event sets its variable exactly once, at its time -- x(t) = (value of the last event due before t) + (ticks since)"""
    events = [(t, {('pool', 'x'): v}) for t, v in case['events']]
    try:
        tl = TimelineProcess({'timeline': copy.deepcopy(events), 'time_step': 1.0})
        eng = Engine(processes={'site1': {'a': {'timeline': tl, 'grower': PoolGrower()}},
                                'mover': AgentMover({'script': {int(k): v for k, v in case['moves'].items()}})},
                     topology={'mover': {'one': ('site1',), 'two': ('site2',)},
                               'site1': {'a': {'timeline': {'global': ('global',), 'pool': ('pool',)}, 'grower': {'pool': ('pool',)}}}},
                     display_info=False, emitter='null')
        xs = []
        for _ in range(total):
            eng.update(1)
            v = eng.state.get_value()
            ag = (v.get('site1') or {}).get('a') or (v.get('site2') or {}).get('a')
            xs.append(ag['pool']['x'] if ag else None)
    except Exception as e:
        return ['engine raised %s: %s' % (type(e).__name__, str(e)[:200])]
    # reference: each tick k (clock k-1 at its start) the grower adds 1; an event with time <= k-1, not fired yet, fires in tick k
    # and is combined by the engine with the grower's +1 of the same tick in listing order (timeline first: set, then +1)
    want, x, fired = [], 0, set()
    for k in range(1, total + 1):
        for i, (t, v) in enumerate(case['events']):
            if t <= k - 1 and i not in fired:
                fired.add(i)
                x = v
        x += 1
        want.append(x)
    if xs != want:
        k = next(i for i, (a_, b_) in enumerate(zip(xs, want)) if a_ != b_)
        return ['moves %s, events %s: pool/x over time is %s, expected %s (first difference after tick %d: an event fired again, '
                'or not at its time)' % (case['moves'], case['events'], xs, want, k + 1)]
    return []


PORT_NAMES = ['s', 'a', 'b', 'g', 'lo', 'al', 'glob', 'globe', 'membrane']


def check_port_name(port):
    """the timeline declares a port for every port name its events use (whatever the name), so that it can be wired and its events
    reach the wired store"""
    events = [(1, {(port, 'x'): 5}), (2, {(port, 'y'): 6})]
    try:
        tl = TimelineProcess({'timeline': copy.deepcopy(events), 'time_step': 1.0})
        if port not in tl.ports():
            return ['TimelineProcess.ports() is %r for events on port %r' % (sorted(tl.ports()), port)]

        class Hold(Process):
            defaults = {'timestep': 100.0}

            def ports_schema(self):
                return {'s': {v: {'_default': 0, '_updater': 'set', '_emit': True} for v in ('x', 'y')}}

            def next_update(self, timestep, states):
                return {}
        eng = Engine(processes={'timeline': tl, 'hold': Hold()},
                     topology={'timeline': {'global': ('global',), port: ('deep', 'store')}, 'hold': {'s': ('deep', 'store')}},
                     display_info=False, emitter='null')
        eng.update(4)
        got = eng.state.get_value()['deep']['store']
    except Exception as e:
        return ['timeline with events on port %r: %s: %s' % (port, type(e).__name__, str(e)[:160])]
    if (got['x'], got['y']) != (5, 6):
        return ['events on port %r wired to deep/store: x, y are %r, %r after the run, the events set 5 and 6' % (port, got['x'], got['y'])]
    return []


PATHS_CASES = [{'tank': ()}, {'tank': ('deep', 'store')}, {}, {'tank': ('tank',)}]


def check_add_timeline_paths(paths):
    """the composition helper add_timeline wires each timeline port to the path given for it in `paths` (the root path () is a path
    like any other), to the store named after the port otherwise: every event reaches the variable at that path"""
    from vivarium.core.composition import add_timeline

    class Tank(Process):
        defaults = {'timestep': 100.0, 'at': ()}

        def ports_schema(self):
            return {'tank': {'level': {'_default': 0, '_updater': 'set', '_emit': True}, 'valve': {'_default': 'closed', '_updater': 'set'}}}

        def next_update(self, timestep, states):
            return {}
    where = tuple(paths.get('tank', ('tank',)))
    procs, topo = {'holder': Tank()}, {'holder': {'tank': where}}
    try:
        add_timeline(procs, topo, {'timeline': [(1, {('tank', 'level'): 50}), (2, {('tank', 'valve'): 'half'})], 'paths': dict(paths)})
        eng = Engine(processes=procs, topology=topo, display_info=False, emitter='null')
        eng.update(4)
        node = eng.state.get_value()
        for p_ in where:
            node = node[p_]
    except Exception as e:
        return ['add_timeline with paths %r: %s: %s' % (paths, type(e).__name__, str(e)[:160])]
    if (node.get('level'), node.get('valve')) != (50, 'half'):
        return ['add_timeline with paths %r: the port is wired %r; level, valve at %s are %r, %r after the run, the events set 50 and half'
                % (paths, topo.get('timeline', {}).get('tank'), where, node.get('level'), node.get('valve'))]
    return []


def ser(events):
    return [[t, [[list(k), v] for k, v in ch.items()]] for t, ch in events]


def deser(evs):
    return [(t, {tuple(k): v for k, v in ch}) for t, ch in evs]


def main():
    ap = argparse.ArgumentParser()
    ap.add_argument('--tier', default='quick'); ap.add_argument('--seed', type=int, default=0)
    ap.add_argument('--out', default='out/replays'); ap.add_argument('--replay', default=None)
    a = ap.parse_args()
    if a.replay:
        d = json.load(open(a.replay))['scenario']
        if 'paths' in d:
            fails = check_add_timeline_paths({k: tuple(v) for k, v in d['paths'].items()})
            L.emit_result({'status': 'reproduced' if fails else 'not-reproduced', 'failed': fails})
            return
        if 'port' in d:
            fails = check_port_name(d['port'])
            L.emit_result({'status': 'reproduced' if fails else 'not-reproduced', 'failed': fails})
            return
        if 'moved' in d:
            fails = check_moved_timeline(d['moved'])
            L.emit_result({'status': 'reproduced' if fails else 'not-reproduced', 'failed': fails})
            return
        if 'consumed' in d:
            kind, pattern, dt = d['consumed']
            fails = check_consumed(kind, [tuple(x) for x in pattern], dt)
            L.emit_result({'status': 'reproduced' if fails else 'not-reproduced', 'failed': fails})
            return
        fails = check(deser(d['events']), d['dt'], d['total'], shared=d.get('shared', False))
        L.emit_result({'status': 'reproduced' if fails else 'not-reproduced', 'failed': fails})
        return
    rng = random.Random('c19-%d' % a.seed)
    sizes = [2, 3, 4] if a.tier == 'quick' else [2, 3, 4, 5]
    n_sets = 6 if a.tier == 'quick' else 40
    evaluations = 0; distinct = set(); failures = []; samples = []
    for _ in range(n_sets):
        k = rng.choice(sizes)
        chosen = rng.sample(POOL, k)
        perms = list(itertools.permutations(chosen))
        if a.tier == 'quick' and len(perms) > 24:
            perms = rng.sample(perms, 24)
        for perm in perms:
            for dt in (1, 2, 4, 20):
                evaluations += 1
                events = list(perm)
                shared = (evaluations % 3 == 0)
                if shared:
                    # duplicate one event's dictionary at two other times (same content -> same object in check())
                    extra = rng.choice(events)
                    events = events + [(extra[0] + 2, dict(extra[1])), (extra[0] + 2, {('s', 'c'): 'm'})]
                fails = check(copy.deepcopy(events), dt, 12, shared=shared)
                times = [e[0] for e in events]
                if times != sorted(times) or len(set(times)) < len(times) or dt > 1:
                    distinct.add(json.dumps([ser(events), dt]))
                if len(samples) < 2:
                    samples.append({'events': ser(events), 'timestep': dt})
                if fails:
                    rp = L.write_replay(a.out, 'C19', 'tl%d' % evaluations, {'events': ser(events), 'dt': dt, 'total': 12, 'shared': shared},
                                        fails, extra={'driver': 'bounded.c19'})
                    failures.append({'id': 'C19.bounded.timeline#%d: %s' % (evaluations, fails[0][:200]), 'replay': rp})
                    if len(failures) >= 3:
                        break
            if len(failures) >= 3:
                break
        if len(failures) >= 3:
            break
    for pi, paths in enumerate(PATHS_CASES):
        if len(failures) >= 3:
            break
        evaluations += 1
        distinct.add('paths-%d' % pi)
        fails = check_add_timeline_paths(paths)
        if fails:
            rp = L.write_replay(a.out, 'C19', 'paths%d' % pi, {'paths': {k: list(v) for k, v in paths.items()}}, fails, extra={'driver': 'bounded.c19'})
            failures.append({'id': 'C19.bounded.add-timeline-paths#%d: %s' % (pi, fails[0][:240]), 'replay': rp})
    for port in PORT_NAMES:
        if len(failures) >= 3:
            break
        evaluations += 1
        distinct.add('port-' + port)
        fails = check_port_name(port)
        if fails:
            rp = L.write_replay(a.out, 'C19', 'port-' + port, {'port': port}, fails, extra={'driver': 'bounded.c19'})
            failures.append({'id': 'C19.bounded.port[%s]: %s' % (port, fails[0][:240]), 'replay': rp})
    for ci, case in enumerate(MOVED_CASES):
        if len(failures) >= 3:
            break
        evaluations += 1
        distinct.add('moved-%d' % ci)
        fails = check_moved_timeline(case)
        if fails:
            rp = L.write_replay(a.out, 'C19', 'moved%d' % ci, {'moved': case}, fails, extra={'driver': 'bounded.c19'})
            failures.append({'id': 'C19.bounded.moved#%d: %s' % (ci, fails[0][:240]), 'replay': rp})
    for ci, (kind, pattern, dt) in enumerate(CONSUMED_CASES):
        if len(failures) >= 3:
            break
        evaluations += 1
        distinct.add('consumed-%d' % ci)
        fails = check_consumed(kind, pattern, dt)
        if fails:
            rp = L.write_replay(a.out, 'C19', 'consumed%d' % ci, {'consumed': [kind, pattern, dt]}, fails, extra={'driver': 'bounded.c19'})
            failures.append({'id': 'C19.bounded.consumed#%d: %s' % (ci, fails[0][:240]), 'replay': rp})
    L.emit_result({'status': 'violated' if failures else 'ok', 'evaluations': evaluations,
                   'distinct_nontrivial': len(distinct), 'failures': failures, 'samples': samples,
                   'rule': 'all permutations (sampled to 24 in quick) of random event multisets x timesteps; '
                           'non-trivial = unsorted listing, duplicate times, or several events per tick'})


if __name__ == '__main__':
    main()
