"""Bounded driver for C11 (division: daughters get what the dividers promise and are independent) on the real engine.

LABEL: bounded stand-in.  Bound: a colony whose agents carry one variable per registered divider (split on odd /
even / zero / negative / > 2**53 ints and floats and quantities, set (default) on mutable values, zero, set_value with a
mutable configured value, split_dict, binomial, a divider dict with topology+config, a branch-level divider); explicit
daughter initial states; in-place updates (dict_value updater) of one daughter after the division; two generations.
"""
import math, argparse, copy, json, random
import numpy as np
from bounded import lib as L
from vivarium.core.engine import Engine
from vivarium.core.process import Process
from vivarium.core.registry import divider_registry
from vivarium.library.units import units


def custom_divider(state, state_topology=None, config=None, **kw):
    # a user divider with topology and config: daughters get (state + neighbour value, config offset)
    st = kw.get('state') if 'state' in kw else state_topology
    return [state + config['offset'], state - config['offset']]


def branch_divider(state):
    return [{'u': state['u'], 'w': 0}, {'u': 0, 'w': state['w']}]


def first_gets_all(state):
    return [state, 0]


# registered under a main name AND an alternate name (Registry.register(..., alternate_keys=...)): both names mean this divider
if divider_registry.access('c11_first_gets_all') is None:
    divider_registry.register('c11_first_gets_all', first_gets_all, alternate_keys=['c11_all_to_first'])


def agent_schema(vals):
    return {
        'n': {'_default': vals['n'], '_divider': 'split', '_emit': True},
        'f': {'_default': vals['f'], '_divider': 'split'},
        'q': {'_default': vals['q'] * units.fg, '_divider': 'split'},
        'bag': {'_default': {}, '_updater': 'dict_value'},                 # default divider: set
        'z': {'_default': vals.get('z', 9), '_divider': 'zero'},
        'tags': {'_default': {}, '_updater': 'dict_value', '_divider': {'divider': 'set_value', 'config': {'value': {}}}},
        'sd': {'_default': {}, '_updater': 'set', '_divider': 'split_dict'},
        # the configured value of set_value is a value like any other -- also when it is a pair (a 2-D velocity reset at division)
        'vel': {'_default': [1.0, 2.0], '_updater': 'set', '_divider': {'divider': 'set_value', 'config': {'value': [0.0, 0.0]}}},
        'pair': {'_default': 'p', '_updater': 'set', '_divider': {'divider': 'set_value', 'config': {'value': ('x', 'y')}}},
        'b': {'_default': vals['b'], '_divider': 'binomial'},
        'c': {'_default': 10, '_divider': {'divider': custom_divider, 'config': {'offset': 3}}},
        'grp': {'_divider': branch_divider, 'u': {'_default': 4}, 'w': {'_default': 6}},
        'plain': {'_default': 1},
        'gm': {'_default': 6, '_divider': 'c11_first_gets_all'},
        'ga': {'_default': 8, '_divider': 'c11_all_to_first'},
    }


class Colony(Process):
    defaults = {'timestep': 1.0, 'script': [], 'vals': {}}

    def __init__(self, parameters=None):
        super().__init__(parameters)
        self.k = 0

    def ports_schema(self):
        return {'agents': {'*': agent_schema(self.parameters['vals'])}, 'outside': {'keep': {'_default': 1}}}

    def next_update(self, timestep, states):
        s = self.parameters['script']
        u = copy.deepcopy(s[self.k]) if self.k < len(s) else {}
        self.k += 1
        return {'agents': u} if u else {}


# ---- daughters that carry their own processes: variables skipped by the divider (null) are completed by the schema default
EMPTY_HIST = np.zeros(3)
EMPTY_LOG = []


def add_in_place(current, update):
    current += update
    return current


def append_in_place(current, update):
    current.append(update)
    return current


class Tally(Process):
    defaults = {'timestep': 1.0, 'rate': 1.0, 'kind': 'array'}

    def ports_schema(self):
        if self.parameters['kind'] == 'array':
            hits = {'_default': EMPTY_HIST, '_updater': add_in_place, '_divider': 'null'}
        else:
            hits = {'_default': EMPTY_LOG, '_updater': append_in_place, '_divider': 'null'}
        return {'internal': {'hits': hits, 'mass': {'_default': 8, '_divider': 'split'}}}

    def next_update(self, timestep, states):
        if self.parameters['kind'] == 'array':
            return {'internal': {'hits': np.full(3, self.parameters['rate'] * timestep)}}
        return {'internal': {'hits': self.parameters['rate']}}


class Trigger(Process):
    defaults = {'timestep': 1.0, 'time': 3}

    def ports_schema(self):
        return {'clock': {'_default': 0.0, '_updater': 'accumulate'}, 'agents': {}}

    def next_update(self, timestep, states):
        update = {'clock': timestep}
        if states['clock'] + timestep == self.parameters['time']:
            update['agents'] = {'_divide': {'mother': 'm', 'daughters': [{'key': 'm0'}, {'key': 'm1'}]}}
        return update


def check_process_defaults(kind, t_div, extra):
    fails = []
    try:
        eng = Engine(processes={'trigger': Trigger({'time': t_div}), 'agents': {'m': {'tally': Tally({'kind': kind})}}},
                     topology={'trigger': {'clock': ('clock',), 'agents': ('agents',)},
                               'agents': {'m': {'tally': {'internal': ('internal',)}}}},
                     initial_state={'agents': {'m': {'internal': {'mass': 8}}}}, display_info=False, emitter='null')
        eng.update(t_div + extra)
        agents = eng.state.get_path(('agents',))
        if sorted(agents.inner.keys()) != ['m0', 'm1']:
            return ['expected daughters m0 and m1, found %s' % sorted(agents.inner.keys())]
        hits = {k: eng.state.get_path(('agents', k, 'internal', 'hits')).value for k in ('m0', 'm1')}
        masses = [eng.state.get_path(('agents', k, 'internal', 'mass')).value for k in ('m0', 'm1')]
    except Exception as e:
        return ['engine raised %s: %s' % (type(e).__name__, str(e)[:200])]
    if masses != [4, 4]:
        fails.append('split divider: daughters got masses %s' % masses)
    if hits['m0'] is hits['m1']:
        fails.append('the two daughters share one %s object for a variable completed by the schema default' % kind)
    want = [float(extra)] * 3 if kind == 'array' else [1.0] * extra
    for k, v in hits.items():
        if list(v) != want:
            fails.append('daughter %s should have started from the schema default and counted only for itself (%s), holds %s'
                         % (k, want, list(v)))
    if list(EMPTY_HIST) != [0.0, 0.0, 0.0] or EMPTY_LOG != []:
        fails.append('the default object declared in the schema was modified: %s %s' % (list(EMPTY_HIST), EMPTY_LOG))
        EMPTY_HIST[:] = 0
        del EMPTY_LOG[:]
    return fails[:3]


# ---- daughters generated by a Composer (Division / MetaDivision ask the composer once per daughter) ---------------------
from vivarium.core.composer import Composer


class Growth(Process):
    defaults = {'rates': [1.0], 'table': np.ones(2), 'tags': set(), 'nested': {'k': [1]}, 'timestep': 1.0}

    def ports_schema(self):
        return {'global': {'mass': {'_default': 0.0, '_divider': 'split'}}}

    def next_update(self, timestep, states):
        return {'global': {'mass': sum(self.parameters['rates']) * timestep}}


class GCell(Composer):
    defaults = {'growth': {'rates': [1.0, 1.0], 'table': np.ones(2), 'tags': {'a'}, 'nested': {'k': [1, 2]}}}

    def generate_processes(self, config):
        return {'growth': Growth(config['growth'])}

    def generate_topology(self, config):
        return {'growth': {'global': ('global',)}}


def check_composer_daughters():
    """two compartments generated from one composer (the daughters of a division) share no mutable parameter object with each
    other or with the composer: what one daughter's process does to its own parameters stays with that daughter"""
    fails = []
    comp = GCell({})
    d1 = comp.generate({'agent_id': '10'})
    d2 = comp.generate({'agent_id': '11'})
    p1, p2 = d1['processes']['growth'].parameters, d2['processes']['growth'].parameters
    for name in ('rates', 'table', 'tags'):
        if p1[name] is p2[name]:
            fails.append('the processes of two daughters generated by one composer share the parameter object %r' % name)
        if p1[name] is comp.config['growth'][name]:
            fails.append('a generated process shares the parameter object %r with the composer config' % name)
    if p1['nested']['k'] is p2['nested']['k']:
        fails.append('the processes of two daughters share the nested parameter list nested/k')
    p1['rates'][0] = 0.5
    p1['nested']['k'].append(99)
    if p2['rates'] != [1.0, 1.0] or comp.config['growth']['rates'] != [1.0, 1.0] or p2['nested']['k'] != [1, 2]:
        fails.append('a change of daughter 10 parameters shows up in daughter 11 / the composer: %r %r %r'
                     % (p2['rates'], comp.config['growth']['rates'], p2['nested']['k']))
    later = comp.generate({'agent_id': '12'})['processes']['growth'].parameters
    if later['rates'] != [1.0, 1.0]:
        fails.append('a compartment generated later starts from parameters changed by an earlier daughter: %r' % (later['rates'],))
    return fails[:3]


def check(sd):
    rng = random.Random(sd)
    fails = []
    vals = {'n': rng.choice([0, 1, 7, 10, -3, -4, 2 ** 53 + 3, 10 ** 30 + 1]), 'f': rng.choice([0.0, 3.0, 2.5, -1.25]),
            'q': rng.choice([4.0, 1.5]), 'b': rng.choice([0, 1, 9, 100])}
    # the zero divider gives zero whatever the mother holds -- also for values that are not finite
    vals['z'] = random.Random(str(sd) + '-z').choice([9, 0, 2.5, math.inf, -math.inf, math.nan, 10 ** 30])
    sdict = {k: i for i, k in enumerate(rng.sample(['k1', 'k2', 'k3', 'k4', 'k5'], rng.choice([0, 1, 2, 3, 5])))}
    explicit = rng.random() < 0.5
    d1_init = {'plain': 55, 'n': 1000} if explicit else {}
    script = [
        {'m': {'bag': {'_add': [{'key': 'inherited', 'state': {'v': 1}}]}, 'sd': sdict}},
        {'_divide': {'mother': 'm', 'daughters': [{'key': 'd1', 'initial_state': d1_init}, {'key': 'd2'}]}},
        {'d1': {'bag': {'_add': [{'key': 'only_d1', 'state': {'v': 2}}]}, 'tags': {'_add': [{'key': 't1', 'state': 1}]},
                'n': 5}},
        {'_divide': {'mother': 'd2', 'daughters': [{'key': 'g1'}, {'key': 'g2'}]}},
        {'g1': {'tags': {'_add': [{'key': 'tg', 'state': 1}]}}},
    ]
    colony = Colony({'script': script, 'vals': vals})
    try:
        eng = Engine(processes={'colony': colony}, topology={'colony': {'agents': ('agents',), 'outside': ('outside',)}},
                     initial_state={'agents': {'m': {}}, 'outside': {'keep': 1}}, display_info=False, emitter='null')
        eng.update(1)
        mother = copy.deepcopy(eng.state.get_value()['agents']['m'])
        eng.update(1)
        ag = copy.deepcopy(eng.state.get_value()['agents'])
    except Exception as e:
        return ['engine raised %s: %s (vals %r)' % (type(e).__name__, str(e)[:200], vals)]
    if sorted(ag) != ['d1', 'd2']:
        return ['after the division the colony holds %s, expected exactly the daughters' % sorted(ag)]
    d1, d2 = ag['d1'], ag['d2']
    # split: conservation, halves
    n1 = d1['n'] if not explicit else None
    if not explicit:
        if d1['n'] + d2['n'] != mother['n'] or abs(d1['n'] - d2['n']) > 1:
            fails.append('split of n=%r gave %r and %r' % (mother['n'], d1['n'], d2['n']))
    else:
        if d1['n'] != 1000 or d1['plain'] != 55:
            fails.append('explicit daughter initial state not applied: n=%r plain=%r' % (d1['n'], d1['plain']))
        if d2['plain'] != 1:
            fails.append('explicit state of one daughter leaked into the other')
    if d1['f'] + d2['f'] != mother['f'] or d1['f'] != d2['f']:
        fails.append('split of f=%r gave %r and %r' % (mother['f'], d1['f'], d2['f']))
    if (d1['q'] + d2['q']) != mother['q'] or d1['q'].units != mother['q'].units:
        fails.append('split of quantity %r gave %r and %r' % (mother['q'], d1['q'], d2['q']))
    if d1['bag'] != mother['bag'] or d2['bag'] != mother['bag']:
        fails.append('set divider: daughters bag %r / %r, mother %r' % (d1['bag'], d2['bag'], mother['bag']))
    if (d1['z'], d2['z']) != (0, 0):
        fails.append('zero divider gave %r, %r' % (d1['z'], d2['z']))
    if d1['vel'] != [0.0, 0.0] or d2['vel'] != [0.0, 0.0] or tuple(d1['pair']) != ('x', 'y') or tuple(d2['pair']) != ('x', 'y'):
        fails.append('set_value divider configured with a pair: daughters start with vel %r / %r and pair %r / %r, configured [0.0, 0.0] and (x, y)'
                     % (d1['vel'], d2['vel'], d1['pair'], d2['pair']))
    if (d1['gm'], d2['gm'], d1['ga'], d2['ga']) != (mother['gm'], 0, mother['ga'], 0):
        fails.append('a divider registered under a main and an alternate name: divided by the main name %r -> %r / %r, by the alternate '
                     'name %r -> %r / %r; it promises [all, 0]' % (mother['gm'], d1['gm'], d2['gm'], mother['ga'], d1['ga'], d2['ga']))
    if d1['tags'] != {} or d2['tags'] != {}:
        fails.append('set_value divider: daughters did not start from the configured value: %r / %r' % (d1['tags'], d2['tags']))
    if set(d1['sd']) & set(d2['sd']) or set(d1['sd']) | set(d2['sd']) != set(mother['sd']) or \
            any(d1['sd'].get(k, d2['sd'].get(k)) != v for k, v in mother['sd'].items()):
        fails.append('split_dict: %r and %r do not partition %r' % (d1['sd'], d2['sd'], mother['sd']))
    if d1['b'] + d2['b'] != mother['b'] or d1['b'] < 0 or d2['b'] < 0:
        fails.append('binomial: %r + %r != %r' % (d1['b'], d2['b'], mother['b']))
    if (d1['c'], d2['c']) != (mother['c'] + 3, mother['c'] - 3):
        fails.append('divider with config: got %r, %r' % (d1['c'], d2['c']))
    if d1['grp'] != {'u': mother['grp']['u'], 'w': 0} or d2['grp'] != {'u': 0, 'w': mother['grp']['w']}:
        fails.append('branch-level divider: got %r, %r' % (d1['grp'], d2['grp']))
    if not explicit and (d1['plain'], d2['plain']) != (mother['plain'], mother['plain']):
        fails.append('default divider did not copy plain value')
    if eng.state.get_value()['outside'] != {'keep': 1}:
        fails.append('something outside the divided compartment changed')
    if fails:
        return fails[:3]
    # independence afterwards
    try:
        eng.update(1)
        ag = eng.state.get_value()['agents']
        if 'only_d1' not in ag['d1']['bag'] or 'only_d1' in ag['d2']['bag']:
            fails.append('an in-place update of daughter d1 shows up in d2 (or was lost): d1 %r d2 %r' % (ag['d1']['bag'], ag['d2']['bag']))
        if ag['d2']['tags'] != {}:
            fails.append('tags of d2 changed when d1 was tagged: %r' % (ag['d2']['tags'],))
        d2n = ag['d2']['n']
        eng.update(1)     # second generation: d2 divides
        ag = eng.state.get_value()['agents']
        if sorted(ag) != ['d1', 'g1', 'g2']:
            fails.append('second generation: colony holds %s' % sorted(ag))
        else:
            if ag['g1']['tags'] != {} or ag['g2']['tags'] != {}:
                fails.append('second generation: set_value daughters start from %r / %r, configured value is {}'
                             % (ag['g1']['tags'], ag['g2']['tags']))
            if ag['g1']['n'] + ag['g2']['n'] != d2n:
                fails.append('second generation split not conserved')
            eng.update(1)
            ag = eng.state.get_value()['agents']
            if ag['g2']['tags'] != {} or 'tg' not in ag['g1']['tags']:
                fails.append('granddaughters share their tags: %r / %r' % (ag['g1']['tags'], ag['g2']['tags']))
            if 't1' not in ag['d1']['tags'] or 'tg' in ag['d1']['tags']:
                fails.append('d1 tags changed by a later generation: %r' % (ag['d1']['tags'],))
    except Exception as e:
        fails.append('after the division the engine raised %s: %s' % (type(e).__name__, str(e)[:200]))
    return fails[:3]


def main():
    ap = argparse.ArgumentParser()
    ap.add_argument('--tier', default='quick'); ap.add_argument('--seed', type=int, default=0)
    ap.add_argument('--out', default='out/replays'); ap.add_argument('--replay', default=None)
    a = ap.parse_args()
    if a.replay:
        d = json.load(open(a.replay))['scenario']
        fails = check_process_defaults(*d['process_defaults']) if 'process_defaults' in d else \
            (check_composer_daughters() if d.get('composer_daughters') else check(d['rng']))
        L.emit_result({'status': 'reproduced' if fails else 'not-reproduced', 'failed': fails})
        return
    n = 200 if a.tier == 'quick' else 3000
    evaluations = 0; failures = []; samples = []; distinct = set()
    for i in range(n):
        sd = 'c11-%d-%d' % (a.seed, i)
        evaluations += 1
        fails = check(sd)
        distinct.add(sd)
        if len(samples) < 2:
            samples.append({'seed': sd})
        if fails:
            rp = L.write_replay(a.out, 'C11', 'div%d' % i, {'rng': sd}, fails, extra={'driver': 'bounded.c11'})
            failures.append({'id': 'C11.bounded.division#%d: %s' % (i, fails[0][:260]), 'replay': rp})
            if len(failures) >= 3:
                break
    if len(failures) < 3:
        evaluations += 1
        fails = check_composer_daughters()
        distinct.add('composer-daughters')
        if fails:
            rp = L.write_replay(a.out, 'C11', 'composer', {'composer_daughters': True}, fails, extra={'driver': 'bounded.c11'})
            failures.append({'id': 'C11.bounded.composer: %s' % fails[0][:260], 'replay': rp})
    for kind in ('array', 'list'):
        for t_div in (1, 2, 3):
            for extra in (1, 3):
                if len(failures) >= 3:
                    break
                evaluations += 1
                fails = check_process_defaults(kind, t_div, extra)
                distinct.add('pd-%s-%d-%d' % (kind, t_div, extra))
                if fails:
                    rp = L.write_replay(a.out, 'C11', 'defaults-%s-%d-%d' % (kind, t_div, extra),
                                        {'process_defaults': [kind, t_div, extra]}, fails, extra={'driver': 'bounded.c11'})
                    failures.append({'id': 'C11.bounded.defaults[%s,%d,%d]: %s' % (kind, t_div, extra, fails[0][:260]), 'replay': rp})
    L.emit_result({'status': 'violated' if failures else 'ok', 'evaluations': evaluations,
                   'distinct_nontrivial': len(distinct), 'failures': failures, 'samples': samples,
                   'rule': 'seeded random mother states; every case runs two generations of divisions with in-place updates '
                           'in between; distinct by seed'})


if __name__ == '__main__':
    main()
