"""Bounded driver for C08 (updates are combined by the declared updater) on the real Store.

LABEL: bounded stand-in.  Bound: stores of depth <= 2 with 1..4 variables; updaters accumulate (default), set,
null, merge, nonnegative_accumulate, dict_value and a user function; values ints, floats, numpy arrays, dicts,
quantities; batches of 1..3 updates per variable (through _multi_update), per-update '_updater' overrides given
as registry name or function, updates expressed in compatible units for variables with units.
Oracle: the updater laws of the statement evaluated natively on copies.
"""
import argparse, copy, json, random
import numpy as np
from bounded import lib as L
from vivarium.core.store import Store
from vivarium.library.units import units

KINDS = ['accumulate', 'set', 'null', 'merge', 'nonnegative_accumulate', 'dict_value', 'user', 'default', 'units', 'units',
         'units_user']


def user_fn(cur, upd):
    return cur * 2 + upd


def user_units_fn(cur, upd):
    # a user updater that computes in another (compatible) unit: the store still holds the declared unit afterwards
    return (cur + upd).to(units.g)


def eq(a, b):
    if isinstance(a, np.ndarray) or isinstance(b, np.ndarray):
        return isinstance(a, np.ndarray) and isinstance(b, np.ndarray) and a.shape == b.shape and bool(np.all(a == b))
    if isinstance(a, dict) and isinstance(b, dict):
        return set(a) == set(b) and all(eq(a[k], b[k]) for k in a)
    if hasattr(a, 'units') or hasattr(b, 'units'):
        return hasattr(a, 'units') and hasattr(b, 'units') and a.units == b.units and abs(a.magnitude - b.magnitude) < 1e-9
    return type(a) is type(b) and a == b or (not isinstance(a, bool) and not isinstance(b, bool) and a == b)


def deep_merge_ref(a, b):
    out = copy.deepcopy(a)
    for k, v in b.items():
        if isinstance(v, dict) and isinstance(out.get(k), dict):
            out[k] = deep_merge_ref(out[k], v)
        else:
            out[k] = copy.deepcopy(v)
    return out


def law(kind, cur, upd):
    if kind in ('accumulate', 'default'):
        return cur + upd
    if kind == 'set':
        return copy.deepcopy(upd)
    if kind == 'null':
        return cur
    if kind == 'merge':
        return deep_merge_ref(cur, upd)
    if kind == 'nonnegative_accumulate':
        s = cur + upd
        if isinstance(s, np.ndarray):
            return np.where(s < 0, 0, s)
        return s if s >= 0 else 0
    if kind == 'user':
        return user_fn(cur, upd)
    if kind == 'dict_value':
        out = copy.deepcopy(cur)
        for k, v in upd.items():
            if k == '_add':
                for a in v:
                    out[a['key']] = copy.deepcopy(a['state'])
            elif k == '_delete':
                for d in v:
                    del out[d]
            else:
                out[k].update(copy.deepcopy(v))
        return out
    if kind in ('units', 'units_user'):
        return (cur + upd).to(units.mg)
    raise KeyError(kind)


def gen_value(rng, kind):
    if kind in ('accumulate', 'default', 'nonnegative_accumulate', 'user'):
        c = rng.choice(['int', 'float', 'array'] if kind != 'user' else ['int', 'float'])
        if c == 'int':
            return rng.choice([0, 3, -2, 10 ** 20]), lambda: rng.choice([1, -5, 7, 0])
        if c == 'float':
            return rng.choice([0.0, 1.5, -2.25]), lambda: rng.choice([0.5, -4.0, 2.0])
        return np.array([1.0, -2.0, 3.0]), lambda: np.array([rng.choice([-3.0, 1.0]), 0.5, rng.choice([-9.0, 2.0])])
    if kind == 'set':
        return rng.choice([0, 'a', [1], {'k': 1}, None]), lambda: rng.choice([5, 'b', [2, 3], {'z': 0}, False])
    if kind == 'null':
        return rng.choice([1, 'a']), lambda: rng.choice([9, 'zz'])
    if kind == 'merge':
        cur = rng.choice([{'a': 1, 'b': {'x': 1}}, {}, {'a': {'p': {'q': 1}}, 'c': 2}])
        return cur, lambda: rng.choice([{'b': {'y': 2}, 'c': 3}, {'a': 5}, {'a': {'p': {'r': 2}}}, {}])
    if kind == 'dict_value':
        cur = {'k1': {'v': 1}, 'k2': {'v': 2}}
        ups = [{'_add': [{'key': 'k3', 'state': {'v': 3}}]}, {'k1': {'w': 9}}, {'_delete': ['k2']}, {'k1': {'v': 5}}]
        return cur, lambda: copy.deepcopy(ups.pop(0)) if ups else {'k1': {'u': 0}}
    if kind in ('units', 'units_user'):
        return 2.0 * units.mg, lambda: rng.choice([500.0 * units.ug, 0.001 * units.g, 1.0 * units.mg])
    raise KeyError(kind)


def check(sd, tier):
    rng = random.Random(sd)
    fails = []
    nvars = rng.choice([1, 2, 3, 4])
    schema, model, kinds = {}, {}, {}
    nested = rng.random() < 0.4
    for i in range(nvars):
        kind = rng.choice(KINDS)
        cur, gen = gen_value(rng, kind)
        leaf = {'_default': copy.deepcopy(cur)}
        if kind == 'user':
            leaf['_updater'] = user_fn
        elif kind == 'units':
            leaf['_updater'] = rng.choice(['accumulate', 'nonnegative_accumulate'])
        elif kind == 'units_user':
            leaf['_updater'] = user_units_fn
        elif kind != 'default':
            leaf['_updater'] = kind
        name = 'v%d' % i
        if kind in ('units', 'units_user') and random.Random(str(sd) + name).random() < 0.5:
            # explicit _units; the default is WRITTEN in another compatible unit (2 mg == 0.002 g): the declared unit rules
            leaf['_units'] = units.mg
            leaf['_default'] = 0.002 * units.g
            cur = 0.002 * units.g
        schema[name] = leaf
        model[name] = copy.deepcopy(cur)
        kinds[name] = (kind, gen)
    full_schema = {'branch': schema, 'untouched': {'_default': 42}} if nested else dict(schema, untouched={'_default': 42})
    store = Store(copy.deepcopy(full_schema))
    store.apply_defaults()
    # a unit-bearing variable may be GIVEN its value in another compatible unit (initial state, set_value): after the next
    # update it holds the declared unit again
    for name, (kind, _) in kinds.items():
        if kind in ('units', 'units_user') and rng.random() < 0.5:
            given = rng.choice([3000.0 * units.ug, 0.004 * units.g])
            store.get_path((('branch',) if nested else ()) + (name,)).set_value(given)
            model[name] = given

    def current():
        v = store.get_value()
        return v['branch'] if nested else v
    for batch in range(rng.choice([1, 2, 3])):
        update = {}
        touched = rng.sample(sorted(model), rng.choice(range(1, len(model) + 1)))
        for name in touched:
            kind, gen = kinds[name]
            ups = [gen() for _ in range(rng.choice([1, 1, 2, 3]))]
            entries = []
            for u in ups:
                ovr = None
                if kind in ('accumulate', 'default') and not isinstance(u, np.ndarray) and rng.random() < 0.3:
                    ovr = rng.choice(['set', 'null', user_fn, 'nonnegative_accumulate'])
                if ovr is not None:
                    entries.append({'_value': u, '_updater': ovr})
                    okind = ovr if isinstance(ovr, str) else 'user'
                    model[name] = law(okind, model[name], u)
                else:
                    entries.append(u)
                    model[name] = law(kind, model[name], u)
            update[name] = entries[0] if len(entries) == 1 else {'_multi_update': entries}
        full_update = {'branch': update} if nested else update
        before = copy.deepcopy(full_update)
        # the value objects the hierarchy holds now (what a process was handed in its view): an updater computes a NEW
        # value, it does not change the old object (dict_value is documented to work in place and is left out)
        held = {}
        for name in model:
            if kinds[name][0] != 'dict_value':
                node = store.get_path((('branch',) if nested else ()) + (name,))
                held[name] = (node.value, copy.deepcopy(node.value))
        try:
            store.apply_update(full_update)
        except Exception as e:
            return ['apply_update raised %s: %s for update %r' % (type(e).__name__, str(e)[:150], before)]
        if not eq_tree(before, full_update):
            fails.append('the update object handed in was modified: %r -> %r' % (before, full_update))
        for name, (obj, was) in held.items():
            if not eq(obj, was):
                fails.append('updater %s of %s changed the value object the hierarchy held before the update in place: %r -> %r'
                             % (kinds[name][0], name, was, obj))
        got = current()
        for name in model:
            if not eq(got[name], model[name]):
                fails.append('variable %s (updater %s) holds %r after batch %r, the updater law gives %r'
                             % (name, kinds[name][0], got[name], update.get(name, 'not mentioned'), model[name]))
            if kinds[name][0] in ('units', 'units_user') and name in update and got[name].units != units.mg:
                fails.append('variable %s holds units %s, declared mg' % (name, got[name].units))
        if store.get_value()['untouched'] != 42:
            fails.append('a variable not mentioned in the update changed')
        if fails:
            break
    return fails[:3]


def eq_tree(a, b):
    if isinstance(a, dict) and isinstance(b, dict):
        return set(a) == set(b) and all(eq_tree(a[k], b[k]) for k in a)
    if isinstance(a, list) and isinstance(b, list):
        return len(a) == len(b) and all(eq_tree(x, y) for x, y in zip(a, b))
    if callable(a) and callable(b):
        return a is b
    return eq(a, b)


def main():
    ap = argparse.ArgumentParser()
    ap.add_argument('--tier', default='quick'); ap.add_argument('--seed', type=int, default=0)
    ap.add_argument('--out', default='out/replays'); ap.add_argument('--replay', default=None)
    a = ap.parse_args()
    if a.replay:
        d = json.load(open(a.replay))['scenario']
        fails = check(d['rng'], a.tier)
        L.emit_result({'status': 'reproduced' if fails else 'not-reproduced', 'failed': fails})
        return
    n = 2000 if a.tier == 'quick' else 50000
    evaluations = 0; distinct = set(); failures = []; samples = []
    for i in range(n):
        sd = 'c08-%d-%d' % (a.seed, i)
        evaluations += 1
        fails = check(sd, a.tier)
        distinct.add(sd) if i % 2 == 0 or True else None
        if len(samples) < 2:
            samples.append({'seed': sd})
        if fails:
            rp = L.write_replay(a.out, 'C08', 'upd%d' % i, {'rng': sd}, fails, extra={'driver': 'bounded.c08'})
            failures.append({'id': 'C08.bounded.updaters#%d: %s' % (i, fails[0][:260]), 'replay': rp})
            if len(failures) >= 3:
                break
    L.emit_result({'status': 'violated' if failures else 'ok', 'evaluations': evaluations,
                   'distinct_nontrivial': len(distinct), 'failures': failures, 'samples': samples,
                   'rule': 'seeded random stores x batches; every case applies >= 1 update through the real Store.apply_update; '
                           'distinct by seed (each seed = a different store/batch sequence)'})


if __name__ == '__main__':
    main()
