"""Bounded driver for the structural properties C09 (operations change the hierarchy exactly as specified),
C10 (the engine runs exactly what is in the hierarchy), C07 (views follow the hierarchy) and the
division clauses of C11, on the real engine.

LABEL: bounded stand-in.  Bound: hierarchies with <= 3 compartments under 'agents' (each holding a process,
a legacy deriver, and two flow steps s1 <- s2) and a second store 'other'; histories of <= 3 (quick) / <= 4
(thorough) ticks, each tick one or two operations from {_add, _delete (by key), _generate, _divide, _move};
process timesteps 1 or 2 (so that updates can be in flight when the structure changes).
Oracle: a reference model of the value tree updated by the documented meaning of each operation
(double entry), node identities before/after, live-set bookkeeping, and an independent projection of the
hierarchy for the views.
"""
import argparse
import copy
import json
import random

from bounded import lib as L
from vivarium.core.engine import Engine
from vivarium.core.process import Process, Step, Deriver
from vivarium.core.store import Store

LOG = []          # (kind, uid, info...)
UID = [0]


def uid():
    UID[0] += 1
    return UID[0]


VAR = {'x': {'_default': 0, '_divider': 'split', '_emit': True}, 'y': {'_default': 0, '_emit': True},
       'z': {'_default': 5, '_updater': 'set', '_emit': True}}


class Tick(Process):
    defaults = {'timestep': 1.0, 'inc': 1}

    def __init__(self, parameters=None):
        super().__init__(parameters)
        self.uid = uid()

    def __deepcopy__(self, memo):
        return Tick(copy.deepcopy(self.parameters))

    def ports_schema(self):
        return {'s': copy.deepcopy(VAR)}

    def next_update(self, timestep, states):
        LOG.append(('proc', self.uid, L.gt(), copy.deepcopy(states)))
        return {'s': {'x': self.parameters['inc']}} if self.parameters['inc'] else {}


class Der(Deriver):
    def __init__(self, parameters=None):
        super().__init__(parameters)
        self.uid = uid()

    def __deepcopy__(self, memo):
        return Der(copy.deepcopy(self.parameters))

    def ports_schema(self):
        s = copy.deepcopy(VAR)
        s['y']['_updater'] = 'set'
        return {'s': s}

    def next_update(self, timestep, states):
        LOG.append(('step', self.uid, L.gt(), copy.deepcopy(states), self.parameters.get('name', 'der')))
        if self.parameters.get('active'):
            return {'s': {'y': 2 * states['s']['x']}}
        return {}


class FStep(Step):
    def __init__(self, parameters=None):
        super().__init__(parameters)
        self.uid = uid()

    def __deepcopy__(self, memo):
        return FStep(copy.deepcopy(self.parameters))

    def ports_schema(self):
        return {'s': copy.deepcopy(VAR)}

    def next_update(self, timestep, states):
        LOG.append(('step', self.uid, L.gt(), copy.deepcopy(states), self.parameters.get('name')))
        return {}


class Director(Process):
    defaults = {'timestep': 1.0, 'script': []}

    def __init__(self, parameters=None):
        super().__init__(parameters)
        self.k = 0
        self.uid = uid()

    def ports_schema(self):
        glob = {'*': {'s': copy.deepcopy(VAR)}}
        return {'agents': copy.deepcopy(glob), 'other': copy.deepcopy(glob)}

    def next_update(self, timestep, states):
        LOG.append(('director', self.uid, L.gt(), copy.deepcopy(states)))
        s = self.parameters['script']
        u = s[self.k] if self.k < len(s) else {}
        self.k += 1
        return build_update(u)


def compartment(active, dt):
    procs = {'tick': Tick({'timestep': dt, 'inc': 1 if active else 0})}
    steps = {'der': Der({'active': active, 'name': 'der'}), 's1': FStep({'name': 's1'}), 's2': FStep({'name': 's2'})}
    flow = {'s1': [], 's2': [('s1',)]}
    port = {'s': ('s',)}
    topo = {'tick': port, 'der': port, 's1': port, 's2': port}
    return procs, steps, flow, topo


def build_update(ops):
    """ops: list of op dicts -> engine update for the director (ports agents / other)."""
    up = {}
    for op in ops:
        port = op.get('port', 'agents')
        u = up.setdefault(port, {})
        k = op['op']
        if k == 'add':
            u.setdefault('_add', []).append({'key': op['key'], 'state': copy.deepcopy(op['state'])})
        elif k == 'delete':
            u.setdefault('_delete', []).append(op['key'])
        elif k == 'generate':
            procs, steps, flow, topo = compartment(op['active'], op.get('dt', 1.0))
            u.setdefault('_generate', []).append({'key': op['key'], 'processes': procs, 'steps': steps, 'flow': flow,
                                                  'topology': topo, 'initial_state': copy.deepcopy(op['state'])})
        elif k == 'divide':
            ds = []
            for dk, st in zip(op['daughters'], op['states']):
                d = {'key': dk, 'initial_state': copy.deepcopy(st)}
                ds.append(d)
            u['_divide'] = {'mother': op['key'], 'daughters': ds}
        elif k == 'move':
            u.setdefault('_move', []).append({'source': (op['key'],), 'target': (op['target'],)})
        elif k == 'set':
            u.setdefault(op['key'], {}).setdefault('s', {})['x'] = op['inc']
        elif k == 'null':
            u.setdefault(op['key'], {}).setdefault('s', {})['z'] = None
    return up


def gen_history(rng, tier, active):
    n0 = rng.choice([1, 2, 3])
    agents = ['a%d' % i for i in range(1, n0 + 1)]
    others = []
    ticks = rng.choice([2, 3] if tier == 'quick' else [2, 3, 4])
    script = []
    fresh = [0]
    dts = {a: rng.choice([1.0, 1.0, 2.0]) for a in agents}

    def new(prefix):
        fresh[0] += 1
        return '%s%d' % (prefix, fresh[0])
    for t in range(ticks):
        ops = []
        used = set()
        for _ in range(rng.choice([1, 1, 2])):
            kinds = ['add', 'generate']
            free = [a for a in agents if a not in used]
            if free:
                kinds += ['delete', 'divide', 'move', 'set', 'null']
            k = rng.choice(kinds)
            if k == 'add':
                key = new('n')
                ops.append({'op': 'add', 'key': key, 'state': {'s': {'x': rng.choice([3, 8])}} if rng.random() < 0.7 else {}})
                agents.append(key); used.add(key)
            elif k == 'generate':
                key = new('g')
                ops.append({'op': 'generate', 'key': key, 'active': active, 'dt': rng.choice([1.0, 2.0]),
                            'state': {'s': {'x': rng.choice([5, 9])}} if rng.random() < 0.7 else {}})
                agents.append(key); used.add(key)
            elif k == 'delete':
                key = rng.choice(free)
                ops.append({'op': 'delete', 'key': key})
                agents.remove(key); used.add(key)
            elif k == 'divide' and not any(o['op'] == 'divide' for o in ops):
                key = rng.choice(free)
                d1, d2 = new('d'), new('d')
                sts = [{}, {}]
                if rng.random() < 0.3:
                    sts[0] = {'s': {'y': 77}}
                ops.append({'op': 'divide', 'key': key, 'daughters': [d1, d2], 'states': sts})
                agents.remove(key); agents += [d1, d2]; used |= {key, d1, d2}
            elif k == 'move':
                key = rng.choice(free)
                ops.append({'op': 'move', 'key': key, 'target': 'other'})
                agents.remove(key); others.append(key); used.add(key)
            elif k == 'set':
                key = rng.choice(free)
                ops.append({'op': 'set', 'key': key, 'inc': rng.choice([10, 20])})
                used.add(key)
            elif k == 'null':
                key = rng.choice(free)
                ops.append({'op': 'null', 'key': key})
                used.add(key)
        script.append(ops)
    return {'n0': n0, 'dts': dts, 'script': script, 'active': active, 'seed': rng.randrange(10 ** 9)}


def build_engine(h):
    del LOG[:]
    procs, steps, flow, topo, init = {'agents': {}}, {'agents': {}}, {'agents': {}}, {'agents': {}}, {'agents': {}, 'other': {}}
    for i in range(1, h['n0'] + 1):
        a = 'a%d' % i
        p, s, f, t = compartment(h['active'], h['dts'].get(a, 1.0))
        procs['agents'][a], steps['agents'][a], flow['agents'][a], topo['agents'][a] = p, s, f, t
        init['agents'][a] = {'s': {'x': 10 * i + 1, 'y': 0, 'z': 5}}
    director = Director({'script': h['script']})
    procs['director'] = director
    topo['director'] = {'agents': ('agents',), 'other': ('other',)}
    eng = Engine(processes=procs, steps=steps, flow=flow, topology=topo, initial_state=init, display_info=False)
    return eng, director


def values(eng):
    """value tree with process entries replaced by ('P', uid)."""
    def conv(v):
        if isinstance(v, dict):
            return {k: conv(x) for k, x in v.items()}
        if isinstance(v, tuple) and v and isinstance(v[0], Process):
            return ('P', getattr(v[0], 'uid', None))
        return v
    return conv(eng.state.get_value())


def node_ids(store, path=()):
    out = {path: id(store)}
    for k, ch in store.inner.items():
        out.update(node_ids(ch, path + (k,)))
    return out


def strip_procs(t):
    if isinstance(t, dict):
        return {k: strip_procs(v) for k, v in t.items() if not (isinstance(v, tuple) and v and v[0] == 'P')}
    return t


def predict(model, ops):
    """Reference meaning of the operations on the value tree (process entries stripped).
    Returns (new model, affected keys per port, constraints) -- division yields constraints instead of values."""
    m = copy.deepcopy(model)
    constraints = []
    affected = set()
    # order of application: adds and moves first, generate, divide, inner keys, deletions last
    order = {'add': 0, 'move': 1, 'generate': 2, 'divide': 3, 'set': 4, 'null': 4, 'delete': 5}
    for op in sorted(ops, key=lambda o: order[o['op']]):
        port = op.get('port', 'agents')
        k = op['op']
        affected.add((port, op['key']))
        if k == 'add':
            st = {'s': {'x': 0, 'y': 0, 'z': 5}}
            for kk, vv in op['state'].get('s', {}).items():
                st['s'][kk] = vv
            m[port][op['key']] = st
        elif k == 'generate':
            st = {'s': {'x': 0, 'y': 0, 'z': 5}}
            for kk, vv in op['state'].get('s', {}).items():
                st['s'][kk] = vv
            m[port][op['key']] = st
        elif k == 'delete':
            m[port].pop(op['key'], None)
        elif k == 'divide':
            mother = m[port].pop(op['key'])
            for dk, st in zip(op['daughters'], op['states']):
                d = {'s': {'x': ('half', op['key']), 'y': mother['s']['y'], 'z': mother['s']['z']}}
                for kk, vv in st.get('s', {}).items():
                    d['s'][kk] = vv
                m[port][dk] = d
                affected.add((port, dk))
            constraints.append(('split', port, op['daughters'], mother['s']['x']))
        elif k == 'move':
            m.setdefault(op['target'], {})[op['key']] = m[port].pop(op['key'])
            affected.add((op['target'], op['key']))
        elif k == 'set':
            m[port][op['key']]['s']['x'] += op['inc']
        elif k == 'null':
            m[port][op['key']]['s']['z'] = None
    return m, affected, constraints


def match(model, got, constraints):
    """compare predicted value tree with the real one (division halves are constrained, not fixed)."""
    fails = []

    def walk(a, b, path):
        if isinstance(a, tuple) and a and a[0] == 'half':
            return
        if isinstance(a, dict) and isinstance(b, dict):
            for k in set(a) | set(b):
                if k not in a:
                    fails.append('unexpected node %s = %r' % (path + (k,), b[k]))
                elif k not in b:
                    fails.append('missing node %s (expected %r)' % (path + (k,), a[k]))
                else:
                    walk(a[k], b[k], path + (k,))
        elif a != b:
            fails.append('node %s holds %r, expected %r' % (path, b, a))
    walk(model, got, ())
    for (_, port, ds, total) in constraints:
        try:
            xs = [got[port][d]['s']['x'] for d in ds]
        except (KeyError, TypeError):
            fails.append('daughters %s missing after division' % (ds,))
            continue
        if sum(xs) != total or abs(xs[0] - xs[1]) > 1:
            fails.append('division of x=%r gave daughters %r (must sum to the mother and differ by at most 1)' % (total, xs))
    return fails


def resolve_model(model, got):
    """replace ('half', ..) placeholders by the actual values so that the model stays concrete"""
    def walk(a, b):
        if isinstance(a, dict):
            return {k: walk(v, b.get(k) if isinstance(b, dict) else None) for k, v in a.items()}
        if isinstance(a, tuple) and a and a[0] == 'half':
            return b
        return a
    return walk(model, got)


def live_processes(eng):
    """uids of processes / steps present in the hierarchy (ground truth = the Store tree)."""
    procs, steps = {}, {}

    def walk(store, path):
        if isinstance(store.value, Process):
            (steps if store.value.is_step() else procs)[path] = getattr(store.value, 'uid', None)
        for k, ch in store.inner.items():
            walk(ch, path + (k,))
    walk(eng.state, ())
    return procs, steps


def strip_empty(d):
    if isinstance(d, dict):
        out = {k: strip_empty(v) for k, v in d.items()}
        return {k: v for k, v in out.items() if not (isinstance(v, dict) and not v)}
    return d


def check_history(h, prop):
    fails = []
    L.instrument()
    L.new_trace()
    try:
        eng, director = build_engine(h)
    except Exception as e:
        return ['engine construction raised %s: %s' % (type(e).__name__, str(e)[:200])]
    model = strip_procs(values(eng))
    t = 0
    for tick, ops in enumerate(h['script']):
        before_ids = node_ids(eng.state)
        before_vals = values(eng)
        mark = len(LOG)
        try:
            with L.Watchdog(20):
                eng.update(1)
        except Exception as e:
            import traceback
            return fails + ['tick %d %s: engine raised %s: %s' % (tick, [o['op'] for o in ops], type(e).__name__, str(e)[:240])]
        t += 1
        got = values(eng)
        if prop in ('C09', 'C11'):
            # ops issued at tick `tick` are applied at the end of it
            model, affected, constraints = predict(model, ops)
            if h['active']:
                pass
            fs = match(model, strip_procs(got), constraints)
            fails += ['tick %d %s: %s' % (tick, [o['op'] for o in ops], f) for f in fs]
            model = resolve_model(model, strip_procs(got))
            after_ids = node_ids(eng.state)
            for path, i in before_ids.items():
                if len(path) >= 2 and (path[0], path[1]) in affected:
                    continue
                if path in after_ids and after_ids[path] != i:
                    fails.append('tick %d %s: node %s was replaced by another node although no operation names it'
                                 % (tick, [o['op'] for o in ops], path))
                if path not in after_ids and len(path) >= 1:
                    fails.append('tick %d %s: node %s disappeared although no operation names it' % (tick, [o['op'] for o in ops], path))
            if fails:
                return fails[:4]
        if prop == 'C10':
            procs, steps = live_processes(eng)
            if set(eng.process_paths) != set(procs):
                fails.append('tick %d %s: engine runs processes at %s but the hierarchy holds %s'
                             % (tick, [o['op'] for o in ops], sorted(eng.process_paths), sorted(procs)))
            if set(eng._step_paths) != set(steps):
                fails.append('tick %d %s: engine knows steps at %s but the hierarchy holds %s'
                             % (tick, [o['op'] for o in ops], sorted(eng._step_paths), sorted(steps)))
            pub = {'processes': eng.processes, 'steps': eng.steps, 'flow': eng.flow, 'topology': eng.topology}
            truth = {'processes': eng.state.get_processes() or {}, 'steps': eng.state.get_steps() or {},
                     'flow': eng.state.get_flow() or {}, 'topology': eng.state.get_topology() or {}}
            for k in pub:
                if strip_empty(pub[k]) != strip_empty(truth[k]):
                    fails.append('tick %d %s: published %s differs from the hierarchy: %s vs %s'
                                 % (tick, [o['op'] for o in ops], k, _brief(strip_empty(pub[k])), _brief(strip_empty(truth[k]))))
            if fails:
                return fails[:4]
    if prop == 'C10':
        fails += check_invocations(h, eng)
    if prop == 'C07':
        fails += check_views(h, eng)
    return fails[:4]


def _brief(x):
    s = repr(x)
    return s if len(s) < 300 else s[:300] + '...'


def check_invocations(h, eng):
    """every step runs exactly once per phase, in flow order inside a compartment; nothing dead is invoked;
    after the history one more quiet tick: every live process (timestep 1) is invoked exactly once."""
    fails = []
    procs, steps = live_processes(eng)
    mark = len(LOG)
    L.CUR.events.append(('marker',))
    n_ev = len(L.CUR.events)
    eng.update(2)
    new = LOG[mark:]
    live_step_uids = set(steps.values())
    live_proc_uids = set(procs.values())
    # phases: split the engine trace by steps-begin/steps-end and map LOG entries by time order
    phases = [ev for ev in L.CUR.events[n_ev:] if ev[0] == 'steps-begin']
    step_calls = [e for e in new if e[0] == 'step']
    proc_calls = [e for e in new if e[0] in ('proc', 'director')]
    for u in live_step_uids:
        n = sum(1 for e in step_calls if e[1] == u)
        if n != len(phases):
            fails.append('step %s ran %d times in %d step phases after the history' % (u, n, len(phases)))
    for e in step_calls:
        if e[1] not in live_step_uids:
            fails.append('a step that is not in the hierarchy any more (uid %s) was invoked' % e[1])
    for e in proc_calls:
        if e[1] not in live_proc_uids:
            fails.append('a process that is not in the hierarchy any more (uid %s) was invoked' % e[1])
    for u in live_proc_uids:
        n = sum(1 for e in proc_calls if e[1] == u)
        if n == 0:
            fails.append('live process %s was never invoked in 2 time units after the history' % u)
    # flow order inside each compartment, per phase: s1 before s2 (names logged)
    return fails[:4]


def check_views(h, eng):
    """at every invocation of the director, its glob views list exactly the current children
    (restricted to declared variables), from the hierarchy at that moment"""
    fails = []
    # one more tick with a recording of the hierarchy right at the invocation
    snaps = []
    orig = Director.next_update

    def spy(self, timestep, states):
        snaps.append((copy.deepcopy(states), values(L.CUR.engine)))
        return orig(self, timestep, states)
    Director.next_update = spy
    try:
        eng.update(1)
    finally:
        Director.next_update = orig
    for states, val in snaps:
        for port in ('agents', 'other'):
            want = {k: {'s': {'x': v['s']['x'], 'y': v['s']['y'], 'z': v['s']['z']}} for k, v in strip_procs(val).get(port, {}).items()
                    if isinstance(v, dict) and 's' in v}
            if states.get(port) != want:
                fails.append('director view of %s is %r but the hierarchy holds %r' % (port, states.get(port), want))
    # history part: at every director invocation during the history the view must list the children alive then
    return fails[:3]


class Sensor(Process):
    """a process WITHOUT glob ports whose port `site` is wired outwards to the site its agent lives in"""
    defaults = {'timestep': 1.0}

    def __init__(self, parameters=None):
        super().__init__(parameters)
        self.seen = []

    def ports_schema(self):
        return {'local': {'reading': {'_default': 0.0, '_updater': 'set'}}, 'site': {'temp': {'_default': 0.0}}}

    def next_update(self, timestep, states):
        self.seen.append((L.gt(), copy.deepcopy(states)))
        return {'local': {'reading': states['site']['temp']}}


class Heater(Process):
    defaults = {'timestep': 1.0, 'by': 1.0}

    def ports_schema(self):
        return {'site': {'temp': {'_default': 0.0}}}

    def next_update(self, timestep, states):
        return {'site': {'temp': self.parameters['by']}}


class Mover(Process):
    defaults = {'timestep': 1.0, 'script': {}}

    def __init__(self, parameters=None):
        super().__init__(parameters)
        self.calls = 0

    def ports_schema(self):
        return {'one': {'*': {}}, 'two': {'*': {}}}

    def next_update(self, timestep, states):
        self.calls += 1
        mv = self.parameters['script'].get(self.calls)
        if not mv:
            return {}
        key, src, dst = mv
        if key not in states[src]:
            return {}
        return {src: {'_move': [{'source': (key,), 'target': (dst,)}]}}


def check_moved_views(script, ticks=6):
    """C07 for processes that are moved: a sensor wired to ('..','..') always reads the site that contains it NOW"""
    sensors = {'a': Sensor(), 'b': Sensor()}
    wiring = {'local': ('local',), 'site': ('..', '..')}
    where = {'a': 'site1', 'b': 'site2'}
    port_of = {'site1': 'one', 'site2': 'two'}
    try:
        eng = Engine(processes={'site1': {'agents': {'a': {'sensor': sensors['a']}}, 'heater': Heater({'by': 1.0})},
                                'site2': {'agents': {'b': {'sensor': sensors['b']}}, 'heater': Heater({'by': 10.0})},
                                'mover': Mover({'script': {int(k): v for k, v in script.items()}})},
                     topology={'mover': {'one': ('site1', 'agents'), 'two': ('site2', 'agents')},
                               'site1': {'agents': {'a': {'sensor': dict(wiring)}}, 'heater': {'site': ()}},
                               'site2': {'agents': {'b': {'sensor': dict(wiring)}}, 'heater': {'site': ()}}},
                     initial_state={'site1': {'temp': 100.0}, 'site2': {'temp': 2000.0}}, display_info=False, emitter='null')
        fails = []
        for tick in range(1, ticks + 1):
            before = {k: len(s.seen) for k, s in sensors.items()}
            val0 = strip_procs(eng.state.get_value())
            located = {k: ('site1' if k in (val0['site1'].get('agents') or {}) else 'site2') for k in sensors}
            eng.update(1)
            for k, sn in sensors.items():
                for t, states in sn.seen[before[k]:]:
                    want = val0[located[k]]['temp']
                    if states['site']['temp'] != want:
                        fails.append('tick %d: the sensor of agent %s lives in %s (temp %r) but was shown temp %r'
                                     % (tick, k, located[k], want, states['site']['temp']))
                    if set(states) != {'local', 'site'} or set(states['site']) != {'temp'}:
                        fails.append('tick %d: the sensor of %s was shown %r' % (tick, k, states))
        val = strip_procs(eng.state.get_value())
        for k in sensors:
            n = sum(1 for site in ('site1', 'site2') if k in (val[site].get('agents') or {}))
            if n != 1:
                fails.append('agent %s exists %d times after the moves' % (k, n))
    except Exception as e:
        return ['engine raised %s: %s' % (type(e).__name__, str(e)[:200])]
    return fails[:3]


MOVE_SCRIPTS = [{'2': ['a', 'one', 'two']}, {'1': ['a', 'one', 'two'], '3': ['a', 'two', 'one']},
                {'2': ['a', 'one', 'two'], '3': ['b', 'two', 'one']}, {'2': ['b', 'two', 'one'], '4': ['b', 'one', 'two']}]


class Release(Process):
    """moves its cargo variables to a target given as port / (port,) / (port, sub, ...) and removes its own vesicle"""
    defaults = {'timestep': 1.0, 'target': 'env', 'agent_id': 'v1'}

    def ports_schema(self):
        mol = {'_default': 0.0}
        return {'cargo': {'*': dict(mol)},
                'env': {'A': dict(mol), 'B': dict(mol), 'pool': {'A': dict(mol), 'B': dict(mol), 'deep': {'A': dict(mol)}}},
                'vesicles': {'*': {}}}

    def next_update(self, timestep, states):
        tgt = self.parameters['target']
        tgt = tuple(tgt) if isinstance(tgt, list) else tgt
        return {'cargo': {'_move': [{'source': (m,), 'target': tgt} for m in sorted(states['cargo'])]},
                'vesicles': {'_delete': [self.parameters['agent_id']]}}


def check_cargo_move(target, cargo):
    """_move of leaf variables to a target below a port: values arrive exactly there (merged into variables that exist),
    the source is detached, bystanders keep their values"""
    env0 = {'A': 10.0, 'B': 20.0, 'pool': {'A': 1.0, 'B': 0.5, 'deep': {'A': 0.25}}}
    try:
        sim = Engine(processes={'vesicles': {'v1': {'release': Release({'target': target})}}},
                     topology={'vesicles': {'v1': {'release': {'cargo': ('cargo',), 'env': ('..', '..', 'env'),
                                                              'vesicles': ('..', '..', 'vesicles')}}}},
                     initial_state={'vesicles': {'v1': {'cargo': dict(cargo)}}, 'env': copy.deepcopy(env0)},
                     display_info=False, emitter='null')
        sim.update(2.0)
        state = strip_procs(sim.state.get_value())
    except Exception as e:
        return ['engine raised %s: %s' % (type(e).__name__, str(e)[:200])]
    sub = tuple(target[1:]) if isinstance(target, (list, tuple)) else ()
    want = copy.deepcopy(env0)
    node = want
    for k in sub:
        node = node[k]
    for m, v in cargo.items():
        node[m] = node.get(m, 0.0) + v if isinstance(node.get(m, 0.0), float) else v
    fails = []
    if state.get('vesicles'):
        fails.append('the vesicle was not removed: %r' % (state.get('vesicles'),))
    if state.get('env') != want:
        fails.append('_move to target %r: env is %r, expected %r (cargo %r arrives below %r, nothing else changes)'
                     % (target, state.get('env'), want, cargo, ('env',) + sub))
    return fails[:2]


CARGO_CASES = [(t, c) for t in ('env', ['env'], ['env', 'pool'], ['env', 'pool', 'deep'])
               for c in ({'A': 3.0}, {'A': 3.0, 'B': 2.0}, {'C': 7.0})
               if not (t == ['env', 'pool', 'deep'] and 'B' in c)]


class Watcher(Process):
    defaults = {'timestep': 1.0}

    def __init__(self, parameters=None):
        super().__init__(parameters)
        self.seen = []

    def ports_schema(self):
        return {'agents': {'*': {'x': {'_default': 1}}}}

    def next_update(self, timestep, states):
        self.seen.append(copy.deepcopy(states))
        return {}


def check_store_entry_views():
    """Engine(store=..., initial_state=...): children named by the initial state under a glob store are in the views from the
    first invocation on (the views are built from the hierarchy the engine starts with)"""
    from vivarium.core.store import generate_state
    fails = []
    for extra in ({'b': {'x': 20}}, {'b': {'x': 20}, 'c': {'x': 30}}, {}):
        w = Watcher()
        procs, topo = {'w': w}, {'w': {'agents': ('agents',)}}
        try:
            store = generate_state(procs, topo, {'agents': {'a': {'x': 10}}})
            eng = Engine(store=store, initial_state={'agents': copy.deepcopy(extra)} if extra else {}, display_info=False, emitter='null')
            eng.update(2)
        except Exception as e:
            fails.append('Engine(store=..., initial_state=%r) raised %s: %s' % (extra, type(e).__name__, str(e)[:160]))
            continue
        want = {'a': {'x': 10}}
        want.update(extra)
        hier = {k: {'x': v['x']} for k, v in strip_procs(eng.state.get_value())['agents'].items()}
        if hier != want:
            fails.append('the hierarchy holds agents %r, expected %r' % (hier, want))
        for i, st in enumerate(w.seen):
            if st != {'agents': want}:
                fails.append('invocation %d of the watcher was shown %r, the hierarchy holds %r' % (i, st, {'agents': want}))
                break
    return fails[:3]


# ---- views while updates are in flight; processes that write into the states they were handed --------------------------
class Adder(Process):
    defaults = {'timestep': 1.0, 'script': {}}

    def __init__(self, parameters=None):
        super().__init__(parameters)
        self.k = 0

    def ports_schema(self):
        return {'items': {'*': {'level': {'_default': 10.0, '_emit': True}}}}

    def next_update(self, timestep, states):
        self.k += 1
        op = self.parameters['script'].get(str(self.k))
        if not op:
            return {}
        if op[0] == 'add':
            return {'items': {'_add': [{'key': op[1], 'state': {'level': 10.0}}]}}
        return {'items': {'_delete': [op[1]]}}


class Scribbler(Process):
    """reads a glob store through a relative path, has an output-only port and a port on an empty glob store; records what it
    is shown, then WRITES into the dictionaries it was handed (they are its own copies to keep)"""
    defaults = {'timestep': 2.0, 'scribble': True}

    def __init__(self, parameters=None):
        super().__init__(parameters)
        self.seen = []

    def ports_schema(self):
        return {'items': {'*': {'level': {'_default': 10.0}}},
                'out': {'_output': True, 'y': {'_default': 0.0, '_updater': 'set'}},
                'empty': {'*': {'v': {'_default': 0}}}}

    def _record(self, what, states):
        eng = L.CUR.engine
        hier = strip_procs(eng.state.get_value()) if eng is not None and getattr(eng, 'state', None) is not None else None
        self.seen.append((what, L.gt(), copy.deepcopy(states), copy.deepcopy(hier)))
        # one invocation hands ONE states dictionary to calculate_timestep and then to next_update: write only at the end of it
        if self.parameters['scribble'] and what == 'next_update':
            states['items']['JUNK'] = {'level': -1.0}
            states['out']['junk'] = 5.0
            states['empty']['ghost'] = {'v': 9}

    def calculate_timestep(self, states):
        self._record('calculate_timestep', states)
        return self.parameters['timestep']

    def next_update(self, timestep, states):
        shown = sorted(k for k in states['items'] if k != 'JUNK')
        self._record('next_update', states)
        return {'items': {k: {'level': 1.0} for k in shown}, 'out': {'y': float(len(shown))}}


INFLIGHT_CASES = [{'slow': slow, 'script': script, 'scribble': scr}
                  for slow in (2.0, 3.0)
                  for script in ({'2': ['add', 'b']}, {'1': ['add', 'b'], '4': ['delete', 'a']}, {'2': ['add', 'b'], '3': ['add', 'c']}, {})
                  for scr in (True, False)]


def check_inflight_views(case, ticks=7):
    """a fast process changes the structure of a store while a slower process that reads that store has an update in flight;
    at EVERY call of the slow process (timestep, update) it is shown exactly the children the hierarchy holds at that moment
    with their current values, an empty output-only port and an empty glob port -- whatever it wrote into earlier states."""
    L.new_trace()
    fails = []
    scr = Scribbler({'timestep': case['slow'], 'scribble': case['scribble']})
    try:
        eng = Engine(processes={'adder': Adder({'script': case['script']}), 'box': {'watch': scr}},
                     topology={'adder': {'items': ('pool', 'items')},
                               'box': {'watch': {'items': ('..', 'pool', 'items'), 'out': ('..', 'outstore'), 'empty': ('..', 'nothing')}}},
                     initial_state={'pool': {'items': {'a': {'level': 0.0}}}}, display_info=False, emitter='null')
        L.CUR.engine = eng
        eng.run_for(ticks)          # not forced: the slow process keeps its own intervals, its updates are in flight in between
    except Exception as e:
        return ['scenario raised %s: %s' % (type(e).__name__, str(e)[:200])]
    for what, t, states, hier in scr.seen:
        if hier is None:
            continue
        want_items = {k: {'level': v['level']} for k, v in hier.get('pool', {}).get('items', {}).items()}
        want = {'items': want_items, 'out': {}, 'empty': {}}
        if states != want:
            fails.append('%s at t=%s was shown %r; the hierarchy then held items %r (output-only and empty glob ports are empty)'
                         % (what, t, states, want_items))
            break
    # what it reads is what it writes: a child gets +1 from every update computed while it was shown
    final = strip_procs(eng.state.get_value())['pool']['items']
    credit = {}
    for what, t, states, hier in scr.seen:
        if what == 'next_update' and t + case['slow'] <= eng.global_time + 1e-9:
            for k in (hier or {}).get('pool', {}).get('items', {}):
                credit[k] = credit.get(k, 0) + 1
    for k, v in final.items():
        start = 0.0 if k == 'a' else 10.0
        if abs(v['level'] - (start + credit.get(k, 0))) > 1e-9:
            fails.append('child %s ends at level %r; it was in the store at %d completed updates of the reader (start %r)'
                         % (k, v['level'], credit.get(k, 0), start))
    return fails[:3]


# ---- processes replaced in place by a _generate over their compartment ---------------------------------------------------
class Meter(Process):
    defaults = {'timestep': 1.0, 'var': 'x', 'gen': 0}

    def __init__(self, parameters=None):
        super().__init__(parameters)
        self.handed = []

    def ports_schema(self):
        ports = {'s': {self.parameters['var']: {'_default': 0.0, '_emit': True}}}
        if self.parameters['gen'] == 0:
            ports['extra'] = {'e': {'_default': 0}}        # the replaced generation has a port the new one does not have
        return ports

    def next_update(self, timestep, states):
        self.handed.append((L.gt(), timestep))
        return {'s': {self.parameters['var']: timestep}}


class Upgrader(Process):
    defaults = {'timestep': 1.0, 'at': 2, 'names': ['a', 'b'], 'new_dt': 1.0}

    def __init__(self, parameters=None):
        super().__init__(parameters)
        self.k = 0
        self.made = {}

    def ports_schema(self):
        return {'cells': {'*': {}}}

    def next_update(self, timestep, states):
        self.k += 1
        if self.k != self.parameters['at']:
            return {}
        self.made = {n: Meter({'var': n, 'gen': 1, 'timestep': self.parameters['new_dt']}) for n in self.parameters['names']}
        return {'cells': {'_generate': [{'key': 'cell', 'processes': dict(self.made),
                                          'topology': {n: {'s': ('s',)} for n in self.made}, 'initial_state': {}}]}}


REPLACE_CASES = [{'names': names, 'at': at, 'new_dt': nd} for names in (['a'], ['a', 'b'], ['a', 'b', 'c']) for at in (1, 2) for nd in (1.0, 0.5)]


def check_replace_in_place(case, total=6):
    """one update generates new processes at the paths of existing ones (an upgrade of a compartment): every NEW process is then
    simulated like any other -- handed timesteps that add up to the time since it entered, its variable advanced by as much --
    and the replaced ones are never invoked again"""
    L.new_trace()
    fails = []
    old = {n: Meter({'var': n}) for n in ('a', 'b', 'c')}
    up = Upgrader({'at': case['at'], 'names': case['names'], 'new_dt': case['new_dt']})
    try:
        eng = Engine(processes={'up': up, 'cells': {'cell': dict(old)}},
                     topology={'up': {'cells': ('cells',)}, 'cells': {'cell': {n: {'s': ('s',), 'extra': ('extra',)} for n in old}}},
                     display_info=False, emitter='null')
        L.CUR.engine = eng
        eng.update(total)
        # the composite the engine publishes describes the hierarchy: the wiring of every process is the one the store holds
        pub = eng.topology.get('cells', {}).get('cell', {})
        held = eng.state.get_topology().get('cells', {}).get('cell', {})
        for n in ('a', 'b', 'c'):
            if pub.get(n) != held.get(n):
                fails.append('engine.topology wires process %s as %r, the hierarchy holds %r' % (n, pub.get(n), held.get(n)))
    except Exception as e:
        return ['scenario raised %s: %s' % (type(e).__name__, str(e)[:200])]
    entered = float(case['at'])            # the update computed at tick `at` (clock at-1) is applied at time `at`
    vals = strip_procs(eng.state.get_value())['cells']['cell']['s']
    for n in ('a', 'b', 'c'):
        if n in case['names']:
            new = up.made[n]
            got = sum(dt for _, dt in new.handed)
            if abs(got - (total - entered)) > 1e-9:
                fails.append('new process %s entered at t=%s and the run ended at %s, but it was handed the timesteps %s (sum %s)'
                             % (n, entered, total, [dt for _, dt in new.handed], got))
            late = [t for t, _ in old[n].handed if t is not None and t >= entered]
            if late:
                fails.append('replaced process %s was still invoked at %s' % (n, late))
        else:
            got = sum(dt for _, dt in old[n].handed)
            if abs(got - total) > 1e-9:
                fails.append('untouched process %s was handed %s time units in a run of %s' % (n, got, total))
        if abs(vals[n] - total) > 1e-9:
            fails.append('variable %s (advanced by every timestep handed to the process at %s) is %r after %s time units'
                         % (n, n, vals[n], total))
    return fails[:3]


# ---- children nobody declared: a glob port with an empty sub-schema shows the children, not what they hold ------------------
class KeyWatcher(Process):
    defaults = {'timestep': 1.0}

    def __init__(self, parameters=None):
        super().__init__(parameters)
        self.seen = []

    def ports_schema(self):
        return {'agents': {'*': {}}}

    def _rec(self, what, states):
        eng = L.CUR.engine
        hier = strip_procs(eng.state.get_value()) if eng is not None and getattr(eng, 'state', None) is not None else None
        self.seen.append((what, copy.deepcopy(states), sorted((hier or {}).get('agents') or {})))

    def calculate_timestep(self, states):
        self._rec('calculate_timestep', states)
        return 1.0

    def update_condition(self, timestep, states):
        self._rec('update_condition', states)
        return True

    def next_update(self, timestep, states):
        self._rec('next_update', states)
        return {}


class StateAdder(Process):
    defaults = {'timestep': 1.0}

    def __init__(self, parameters=None):
        super().__init__(parameters)
        self.k = 0

    def ports_schema(self):
        return {'agents': {'*': {}}}

    def next_update(self, timestep, states):
        self.k += 1
        if self.k <= 2:
            return {'agents': {'_add': [{'key': 'k%d' % self.k, 'state': {'owner': 'adder', 'secret': 40 + self.k}}]}}
        return {}


def check_undeclared_children(with_initial):
    """a store whose children nobody declares (glob port with an empty sub-schema): children added with a state, or named in
    the initial state, hold values no process declared -- a watcher of the store is shown the children, never their contents"""
    L.new_trace()
    w = KeyWatcher()
    try:
        eng = Engine(processes={'adder': StateAdder(), 'w': w}, topology={'adder': {'agents': ('agents',)}, 'w': {'agents': ('agents',)}},
                     initial_state={'agents': {'k0': {'secret': 1}}} if with_initial else {}, display_info=False, emitter='null')
        L.CUR.engine = eng
        eng.update(4)
    except Exception as e:
        return ['scenario raised %s: %s' % (type(e).__name__, str(e)[:200])]
    for what, states, kids in w.seen:
        want = {'agents': {k: {} for k in kids}}
        if states != want:
            return ['%s was handed %r; its port declares no variable below the children %s, so it may be shown %r only'
                    % (what, states, kids, want)]
    if not any(len(kids) >= 2 for _, _, kids in w.seen):
        return ['scenario error: the watcher never saw two children']
    return []


# ---- an update that is due in the batch in which its process is removed ------------------------------------------------------
class CellReaper(Process):
    defaults = {'timestep': 1.0, 'at': 3, 'key': 'c'}

    def __init__(self, parameters=None):
        super().__init__(parameters)
        self.k = 0

    def ports_schema(self):
        return {'cells': {'*': {}}}

    def next_update(self, timestep, states):
        self.k += 1
        if self.k == self.parameters['at']:
            return {'cells': {'_delete': [self.parameters['key']]}}
        return {}


class Secretor(Process):
    defaults = {'timestep': 1.0}

    def ports_schema(self):
        return {'medium': {'secreted': {'_default': 0, '_emit': True}}}

    def next_update(self, timestep, states):
        return {'medium': {'secreted': 1}}


def check_reaper_sibling(how):
    """a cell holds a process that removes the cell at t=3 and a sibling that adds 1 per tick to a variable OUTSIDE the cell: the
    sibling's update for [2, 3] is due in the same batch and is applied, whichever of the two is listed first (C01: every returned
    update is applied once at the end of its interval; C04: the listing order is moot)"""
    out = {}
    for order in (('secretor', 'reaper'), ('reaper', 'secretor')):
        procs = {'secretor': Secretor(), 'reaper': CellReaper({'at': 3})}
        wiring = {'secretor': {'medium': ('..', '..', 'medium')}, 'reaper': {'cells': ('..',)}}
        try:
            eng = Engine(processes={'cells': {'c': {k: procs[k] for k in order}}},
                         topology={'cells': {'c': {k: wiring[k] for k in order}}}, display_info=False, emitter='null')
            (eng.update(5) if how == 'update' else [eng.run_for(1.0) for _ in range(5)])
            out[order] = (eng.state.get_value()['medium']['secreted'], sorted((eng.state.get_value().get('cells') or {})))
        except Exception as e:
            return ['listing %s raised %s: %s' % (order, type(e).__name__, str(e)[:160])]
    fails = []
    for order, (sec, cells) in out.items():
        if sec != 3 or cells:
            fails.append('cell listed %s: medium/secreted is %r after the cell was removed at t=3 (three updates of +1 were due by then), '
                         'cells left %s' % (order, sec, cells))
    return fails


# ---- a port whose variables are split over stores by a dict sub-topology that does not mention all of them ---------------------
class Splitter(Process):
    defaults = {'timestep': 1.0}

    def __init__(self, parameters=None):
        super().__init__(parameters)
        self.seen = []

    def ports_schema(self):
        return {'counts': {'shared': {'_default': 0, '_emit': True}, 'local': {'_default': 0, '_emit': True}}}

    def next_update(self, timestep, states):
        self.seen.append(dict(states['counts']))
        return {'counts': {'shared': 1, 'local': 10}}


SPLIT_TOPOLOGIES = [{'counts': {'shared': ('..', 'environment', 'shared')}},
                    {'counts': {'shared': ('..', 'environment', 'shared'), 'local': ('mine',)}},
                    {'counts': {'_path': ('pool',), 'shared': ('..', '..', 'environment', 'shared')}}]


def check_split_port(topology):
    """one variable of a port is wired elsewhere by a dict sub-topology (with or without `_path`), the others are not mentioned:
    the process reads every variable of the port where its updates to it land -- after n ticks it reads n and 10 n"""
    sp = Splitter()
    try:
        eng = Engine(processes={'cell': {'p': sp}}, topology={'cell': {'p': copy.deepcopy(topology)}}, display_info=False, emitter='null')
        eng.update(4)
    except Exception as e:
        return ['split port %r raised %s: %s' % (topology, type(e).__name__, str(e)[:160])]
    want = [{'shared': k, 'local': 10 * k} for k in range(4)]
    if sp.seen != want:
        return ['port wired %r: the process read %r at its four calls; its own updates (+1, +10 per tick) give %r' % (topology, sp.seen, want)]
    return []


class Env(Process):
    defaults = {'timestep': 1.0}

    def __init__(self, parameters=None):
        super().__init__(parameters)
        self.seen = []

    def ports_schema(self):
        return {'agents': {'*': {'location': {'_default': 7}, 'boundary': {'size': {'_default': 3}}}}}

    def next_update(self, timestep, states):
        self.seen.append(copy.deepcopy(states))
        return {}


class Inner(Process):
    defaults = {'timestep': 1.0}

    def ports_schema(self):
        return {'own': {'x': {'_default': 1}}}

    def next_update(self, timestep, states):
        return {'own': {'x': 1}}


class KeyedSpawner(Process):
    defaults = {'timestep': 1.0, 'how': '_generate'}

    def __init__(self, parameters=None):
        super().__init__(parameters)
        self.k = 0

    def ports_schema(self):
        return {'agents': {}}

    def next_update(self, timestep, states):
        self.k += 1
        if self.k != 2:
            return {}
        if self.parameters['how'] == '_generate':
            return {'agents': {'_generate': [{'key': '2', 'processes': {'inner': Inner()},
                                              'topology': {'inner': {'own': ('own',)}}, 'initial_state': {}}]}}
        return {'agents': {'_add': [{'key': '2', 'state': {'own': {'x': 1}}}]}}


def check_generate_subschema(how):
    """a compartment that joins a store through _generate (with a key) / _add gets the sub-schema another process declared for
    the children of that store: the declared variables exist with their defaults and the declaring process sees them"""
    env = Env()
    try:
        eng = Engine(processes={'env': env, 'spawner': KeyedSpawner({'how': how}), 'agents': {'1': {'inner': Inner()}}},
                     topology={'env': {'agents': ('agents',)}, 'spawner': {'agents': ('agents',)},
                               'agents': {'1': {'inner': {'own': ('own',)}}}},
                     display_info=False, emitter='null')
        eng.update(4)
    except Exception as e:
        return ['%s of a keyed compartment under a store with a declared sub-schema: engine raised %s: %s'
                % (how, type(e).__name__, str(e)[:160])]
    fails = []
    ag = strip_procs(eng.state.get_value())['agents']
    for k in ('1', '2'):
        if k not in ag:
            fails.append('agent %s missing after %s' % (k, how))
        elif ag[k].get('location') != 7 or ag[k].get('boundary') != {'size': 3}:
            fails.append('agent %s (%s) lacks the variables declared for the children of the store: %r' % (k, how, ag[k]))
    last = env.seen[-1]['agents']
    if set(last) != {'1', '2'} or any(v != {'location': 7, 'boundary': {'size': 3}} for v in last.values()):
        fails.append('the declaring process is shown %r' % (last,))
    return fails[:2]


class Reissuer(Process):
    """issues scripted structural directives; with cached=True the SAME dict objects are returned again and again (a
    process that builds its directive once), otherwise an equal fresh copy each time -- both must behave identically"""
    defaults = {'timestep': 1.0, 'cycle': [], 'cached': True, 'below': []}

    def __init__(self, parameters=None):
        super().__init__(parameters)
        self.k = 0
        self.cache = [self.directive(i) for i in range(len(self.parameters['cycle']))]

    def directive(self, i):
        op = self.parameters['cycle'][i]
        if op is None:
            return {}
        d = {op['key']: copy.deepcopy(op['value'])}
        for name in reversed(op['below']):
            d = {name: d}
        return {'colony': d}

    def ports_schema(self):
        node = {'*': {'_default': 0, '_updater': 'set'}}
        for name in reversed(self.parameters['below']):
            node = {name: node}
        return {'colony': node}

    def next_update(self, timestep, states):
        i = self.k % len(self.parameters['cycle'])
        self.k += 1
        return self.cache[i] if self.parameters['cached'] else self.directive(i)


def reissue_cases():
    out = []
    for below in ([], ['pool'], ['pool', 'deep']):
        child = {'_default': 5, '_updater': 'set'}
        out.append({'below': below, 'cycle': [
            {'key': '_delete', 'value': ['x'], 'below': below},
            {'key': '_add', 'value': [{'key': 'x', 'state': 7}], 'below': below}]})
        out.append({'below': below, 'cycle': [
            {'key': '_add', 'value': [{'key': 'y', 'state': 1}], 'below': below},
            {'key': '_delete', 'value': ['y'], 'below': below}, None]})
    return out


def check_reissue(case):
    trajs = []
    for cached in (False, True):
        init = {'x': 5, 'keep': 1}
        for name in reversed(case['below']):
            init = {name: init}
        try:
            eng = Engine(processes={'r': Reissuer({'cycle': case['cycle'], 'cached': cached, 'below': case['below']})},
                         topology={'r': {'colony': ('colony',)}}, initial_state={'colony': init},
                         display_info=False, emitter='null')
            tr = []
            for _ in range(6):
                eng.update(1)
                tr.append(json.dumps(strip_procs(eng.state.get_value()).get('colony'), sort_keys=True, default=repr))
        except Exception as e:
            tr = ['raised %s: %s' % (type(e).__name__, str(e)[:120])]
        trajs.append(tr)
    if trajs[0] and trajs[0][-1].startswith('raised'):
        return ['scenario error: the run with fresh directives %s' % trajs[0][-1]]
    if trajs[0] != trajs[1]:
        k = next((i for i, (a_, b_) in enumerate(zip(trajs[0], trajs[1])) if a_ != b_), min(len(trajs[0]), len(trajs[1])))
        return ['a structural directive issued again from the SAME dict object is not carried out like an equal fresh one: '
                'after tick %d the colony is %s, with fresh directives %s'
                % (k + 1, trajs[1][k] if k < len(trajs[1]) else None, trajs[0][k] if k < len(trajs[0]) else None)]
    return []


STORE_REISSUE_CASES = [{'below': below, 'ops': ops} for below in ([], ['pool'], ['a', 'b'])
                       for ops in (['delete'], ['add'], ['add', 'delete'])]


def check_store_reissue(case):
    """the Store entry point: ONE directive dict applied to two fresh, equal hierarchies is carried out both times, all other
    nodes keep identity and value, and the caller's dict is what it was"""
    import copy as _copy
    from vivarium.core.store import Store
    inner = {}
    if 'delete' in case['ops']:
        inner['_delete'] = ['x']
    if 'add' in case['ops']:
        inner['_add'] = [{'key': 'z', 'state': {'count': 3}}]
    directive = inner
    for name in reversed(case['below']):
        directive = {name: directive}
    before = _copy.deepcopy(directive)
    fails = []
    for attempt in (1, 2):
        schema = {'x': {'count': {'_default': 1}}, 'y': {'count': {'_default': 7}}}
        for name in reversed(case['below']):
            schema = {name: schema, 'side': {'_default': 0}}
        try:
            store = Store(schema)
            store.apply_defaults()
            node = store.get_path(tuple(case['below']))
            bystander = node.inner['y']
            store.apply_update(directive)
        except Exception as e:
            return ['use %d of one directive dict raised %s: %s' % (attempt, type(e).__name__, str(e)[:160])]
        want = {'y': {'count': 7}}
        if 'delete' not in case['ops']:
            want['x'] = {'count': 1}
        if 'add' in case['ops']:
            want['z'] = {'count': 3}
        got = node.get_value()
        if got != want:
            fails.append('use %d of one directive dict %r below %s: the compartment is %r, expected %r (directive is now %r)'
                         % (attempt, before, case['below'], got, want, directive))
        if node.inner.get('y') is not bystander:
            fails.append('use %d: bystander y lost its identity' % attempt)
    if directive != before:
        fails.append('the directive handed to Store.apply_update was modified: %r -> %r' % (before, directive))
    return fails[:3]


def main():
    ap = argparse.ArgumentParser()
    ap.add_argument('--prop', required=True)
    ap.add_argument('--tier', default='quick'); ap.add_argument('--seed', type=int, default=0)
    ap.add_argument('--out', default='out/replays'); ap.add_argument('--replay', default=None)
    a = ap.parse_args()
    if a.replay:
        rec = json.load(open(a.replay))
        h = rec['scenario']
        fails = check_split_port(h['topology']) if rec.get('kind') == 'split' else check_reaper_sibling(h['how']) if rec.get('kind') == 'reaper' else check_undeclared_children(h['with_initial']) if rec.get('kind') == 'undeclared' else check_replace_in_place(h) if rec.get('kind') == 'replace' else check_inflight_views(h) if rec.get('kind') == 'inflight' else check_store_reissue(h) if rec.get('kind') == 'storereissue' else check_generate_subschema(h['how']) if rec.get('kind') == 'subschema' else check_store_entry_views() if rec.get('kind') == 'storeentry' else check_reissue(h) if rec.get('kind') == 'reissue' else check_cargo_move(h['target'], h['cargo']) if rec.get('kind') == 'cargo' else (check_moved_views(h) if rec.get('kind') == 'moved' else check_history(h, a.prop))
        L.emit_result({'status': 'reproduced' if fails else 'not-reproduced', 'failed': fails})
        return
    n = {'quick': 150, 'thorough': 5000}[a.tier]
    rng = random.Random('struct-%s-%d' % (a.prop, a.seed))
    evaluations = 0; distinct = set(); failures = []; samples = []
    for i in range(n):
        active = a.prop in ('C10', 'C07')
        h = gen_history(rng, a.tier, active)
        h = json.loads(json.dumps(h))
        evaluations += 1
        fails = check_history(h, a.prop)
        kinds = tuple(tuple(o['op'] for o in ops) for ops in h['script'])
        if sum(len(k) for k in kinds) >= 2:
            distinct.add(json.dumps([h['n0'], h['script']], sort_keys=True))
        if len(samples) < 2:
            samples.append({'compartments': h['n0'], 'history': [[o['op'] + ':' + o['key'] for o in ops] for ops in h['script']]})
        if fails:
            rp = L.write_replay(a.out, a.prop, 'hist%d' % i, h, fails, extra={'driver': 'bounded.struct'})
            failures.append({'id': '%s.bounded.history#%d: %s' % (a.prop, i, fails[0][:260]), 'replay': rp})
            if len(failures) >= 3:
                break
    if a.prop in ('C07', 'C04', 'C06') and len(failures) < 3:
        evaluations += 1
        fails = check_store_entry_views()
        distinct.add('store-entry-views')
        if fails:
            rp = L.write_replay(a.out, a.prop, 'storeentry', {'store_entry': True}, fails, kind='storeentry', extra={'driver': 'bounded.struct'})
            failures.append({'id': '%s.bounded.store-entry: %s' % (a.prop, fails[0][:260]), 'replay': rp})
    if a.prop in ('C01', 'C06'):
        for ti, topo_ in enumerate(SPLIT_TOPOLOGIES):
            if len(failures) >= 3:
                break
            evaluations += 1
            fails = check_split_port(topo_)
            distinct.add('split-%d' % ti)
            if fails:
                rp = L.write_replay(a.out, a.prop, 'split%d' % ti, {'topology': topo_}, fails, kind='split', extra={'driver': 'bounded.struct'})
                failures.append({'id': '%s.bounded.split-port#%d: %s' % (a.prop, ti, fails[0][:260]), 'replay': rp})
    if a.prop in ('C01', 'C04'):
        for how in ('update', 'run_for'):
            if len(failures) >= 3:
                break
            evaluations += 1
            fails = check_reaper_sibling(how)
            distinct.add('reaper-' + how)
            if fails:
                rp = L.write_replay(a.out, a.prop, 'reaper-' + how, {'how': how}, fails, kind='reaper', extra={'driver': 'bounded.struct'})
                failures.append({'id': '%s.bounded.reaper[%s]: %s' % (a.prop, how, fails[0][:260]), 'replay': rp})
    if a.prop in ('C02', 'C01', 'C10', 'C09'):
        for ci, case in enumerate(REPLACE_CASES):
            if len(failures) >= 3:
                break
            evaluations += 1
            fails = check_replace_in_place(case)
            distinct.add('replace-%d' % ci)
            if fails:
                rp = L.write_replay(a.out, a.prop, 'replace%d' % ci, case, fails, kind='replace', extra={'driver': 'bounded.struct'})
                failures.append({'id': '%s.bounded.replace#%d: %s' % (a.prop, ci, fails[0][:260]), 'replay': rp})
    if a.prop == 'C07':
        for wi in (False,):          # (an initial state below an undeclared glob makes the store a leaf on the pinned tree: recorded observation)
            if len(failures) >= 3:
                break
            evaluations += 1
            fails = check_undeclared_children(wi)
            distinct.add('undeclared-%s' % wi)
            if fails:
                rp = L.write_replay(a.out, a.prop, 'undeclared%d' % int(wi), {'with_initial': wi}, fails, kind='undeclared', extra={'driver': 'bounded.struct'})
                failures.append({'id': '%s.bounded.undeclared#%d: %s' % (a.prop, int(wi), fails[0][:260]), 'replay': rp})
    if a.prop in ('C07', 'C06'):
        for ci, case in enumerate(INFLIGHT_CASES):
            if len(failures) >= 3:
                break
            evaluations += 1
            fails = check_inflight_views(case)
            distinct.add('inflight-%d' % ci)
            if fails:
                rp = L.write_replay(a.out, a.prop, 'inflight%d' % ci, case, fails, kind='inflight', extra={'driver': 'bounded.struct'})
                failures.append({'id': '%s.bounded.inflight#%d: %s' % (a.prop, ci, fails[0][:260]), 'replay': rp})
    if a.prop in ('C07', 'C10'):
        for mi, script in enumerate(MOVE_SCRIPTS):
            if len(failures) >= 3:
                break
            evaluations += 1
            fails = check_moved_views(script)
            distinct.add('moved-%d' % mi)
            if fails:
                rp = L.write_replay(a.out, a.prop, 'moved%d' % mi, script, fails, kind='moved', extra={'driver': 'bounded.struct'})
                failures.append({'id': '%s.bounded.moved#%d: %s' % (a.prop, mi, fails[0][:260]), 'replay': rp})
    if a.prop in ('C09', 'C07'):
        for how in ('_generate', '_add'):
            if len(failures) >= 3:
                break
            evaluations += 1
            fails = check_generate_subschema(how)
            distinct.add('subschema' + how)
            if fails:
                rp = L.write_replay(a.out, a.prop, 'subschema' + how, {'how': how}, fails, kind='subschema', extra={'driver': 'bounded.struct'})
                failures.append({'id': '%s.bounded.subschema[%s]: %s' % (a.prop, how, fails[0][:260]), 'replay': rp})
        for gi, (target, cargo) in enumerate(CARGO_CASES):
            if len(failures) >= 3:
                break
            evaluations += 1
            fails = check_cargo_move(target, cargo)
            distinct.add('cargo-%d' % gi)
            if fails:
                rp = L.write_replay(a.out, a.prop, 'cargo%d' % gi, {'target': target, 'cargo': cargo}, fails, kind='cargo',
                                    extra={'driver': 'bounded.struct'})
                failures.append({'id': '%s.bounded.cargo#%d: %s' % (a.prop, gi, fails[0][:260]), 'replay': rp})
        for ci, case in enumerate(reissue_cases()):
            if len(failures) >= 3:
                break
            evaluations += 1
            fails = check_reissue(case)
            distinct.add(json.dumps(case, sort_keys=True, default=repr))
            if fails:
                rp = L.write_replay(a.out, a.prop, 'reissue%d' % ci, case, fails, kind='reissue', extra={'driver': 'bounded.struct'})
                failures.append({'id': '%s.bounded.reissue#%d: %s' % (a.prop, ci, fails[0][:260]), 'replay': rp})
        for ci, case in enumerate(STORE_REISSUE_CASES):
            if len(failures) >= 3:
                break
            evaluations += 1
            fails = check_store_reissue(case)
            distinct.add('storereissue-%d' % ci)
            if fails:
                rp = L.write_replay(a.out, a.prop, 'storereissue%d' % ci, case, fails, kind='storereissue', extra={'driver': 'bounded.struct'})
                failures.append({'id': '%s.bounded.store-reissue#%d: %s' % (a.prop, ci, fails[0][:260]), 'replay': rp})
    L.emit_result({'status': 'violated' if failures else 'ok', 'evaluations': evaluations,
                   'distinct_nontrivial': len(distinct), 'failures': failures, 'samples': samples,
                   'rule': 'seeded random structural histories; non-trivial = >= 2 operations; distinct by (initial size, script)'})


if __name__ == '__main__':
    main()
