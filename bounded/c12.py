"""Bounded driver for the row-fidelity half of C12 on the real engine: every history row contains exactly the
variables flagged for emission, with the values the hierarchy held at that time (declared units and custom
serializers applied); with a larger emit_step the rows are a subset of the emit_step-1 rows with identical content;
flags set through store_schema (leaf or branch level) act on the whole branch.

LABEL: bounded stand-in.  Bound: one or two processes over a store 'cell' with 2..7 variables from the kinds
{int, float, quantity declared in um (default / initial state / updates given in um or mm), quantity with a custom
serializer, list of quantities, nested group of variables}, emit flags per leaf, optional store_schema overrides at
leaf or branch level, emit_step in {1,2,3}, run lengths 3..6, timesteps {1,2}; a user emitter object records every
emit() call and the oracle reads the hierarchy itself at that moment (Store.value of each leaf, converted by the
oracle with pint), never Store.emit_data.
"""
import argparse, copy, json, random
from bounded import lib as L
from vivarium.core.engine import Engine
from vivarium.core.process import Process
from vivarium.core.registry import Serializer
from vivarium.library.units import units

UM, MM = units.um, units.mm


class _BareMarker:
    pass


class Bare(Serializer):
    """custom serializer: the bare magnitude (in whatever units it is handed), tagged"""
    python_type = _BareMarker          # only used by name (`_serializer: 'verif_bare'`), never found by type

    def serialize(self, data):
        return {'bare': float(data.magnitude) if hasattr(data, 'magnitude') else data}


BARE = Bare()
from vivarium.core.serialize import QuantitySerializer
QSER = QuantitySerializer()
from vivarium.core.registry import serializer_registry
if serializer_registry.access('verif_bare') is None:
    serializer_registry.register('verif_bare', BARE)


def q(v, u):
    return v * (UM if u == 'um' else MM)


def leaf_schema(var):
    k = var['kind']
    s = {'_emit': var['emit']}
    if k == 'int':
        s.update({'_default': var['default'], '_updater': 'accumulate'})
    elif k == 'float':
        s.update({'_default': float(var['default']), '_updater': 'accumulate'})
    elif k == 'um':
        s.update({'_default': q(1.0, 'um'), '_updater': 'accumulate'})
    elif k == 'ser':
        s.update({'_default': q(2.0, 'um'), '_updater': 'accumulate', '_serializer': 'verif_bare'})
    elif k == 'list_um':
        s.update({'_default': [q(1.0, 'um'), q(2.0, 'um')], '_updater': 'set'})
    return s


class Grow(Process):
    defaults = {'timestep': 1.0, 'vars': [], 'mine': [], 'starstar': False}

    def __init__(self, parameters=None):
        super().__init__(parameters)
        self.k = 0

    def ports_schema(self):
        cell = {}
        for var in self.parameters['vars']:
            node = cell
            if var.get('group'):
                node = cell.setdefault(var['group'], {})
            node[var['name']] = leaf_schema(var)
        schema = {'cell': cell}
        if self.parameters.get('starstar'):
            schema['whole'] = '**'          # a port connected to an entire (schema-less) sub-branch
        return schema

    def next_update(self, timestep, states):
        self.k += 1
        up = {}
        for var in self.parameters['vars']:
            if var['name'] not in self.parameters['mine'] or var.get('static'):
                continue
            k = var['kind']
            if k in ('int',):
                v = self.k
            elif k == 'float':
                v = 0.5 * timestep
            elif k in ('um', 'ser'):
                v = q(0.5, 'um') if var.get('upd_unit', 'um') == 'um' else q(0.001, 'mm')
            elif k == 'list_um':
                u = var.get('upd_unit', 'um')
                v = [q(1.0 + self.k, u), q(2.0, u)]
            node = up
            if var.get('group'):
                node = up.setdefault(var['group'], {})
            node[var['name']] = v
        out = {'cell': up}
        if self.parameters.get('starstar'):
            out['whole'] = {'_updater': 'set', '_value': {'x': self.k * 10}}
        return out


def gen(rng, tier):
    n = rng.choice([2, 3, 4, 5] if tier == 'quick' else [2, 3, 4, 5, 6, 7])
    vars_ = []
    for i in range(n):
        kind = rng.choice(['int', 'float', 'um', 'um', 'ser', 'list_um'])
        v = {'name': 'v%d' % i, 'kind': kind, 'emit': rng.random() < 0.6, 'default': rng.choice([0, 1, 5]),
             'group': rng.choice([None, None, 'g1', 'g2']), 'static': rng.random() < 0.25,
             'upd_unit': rng.choice(['um', 'mm']), 'init_unit': rng.choice([None, 'um', 'mm'])}
        vars_.append(v)
    overrides = []
    if rng.random() < 0.5:
        for _ in range(rng.choice([1, 2])):
            if rng.random() < 0.5 and any(v['group'] for v in vars_):
                g = rng.choice([v['group'] for v in vars_ if v['group']])
                overrides.append({'branch': g, 'emit': rng.random() < 0.5})
            else:
                v = rng.choice(vars_)
                overrides.append({'leaf': v['name'], 'emit': rng.random() < 0.5})
    two = rng.random() < 0.4
    names = [v['name'] for v in vars_]
    mine0 = names if not two else names[::2]
    mine1 = [] if not two else names[1::2]
    scn = {'vars': vars_, 'overrides': overrides, 'emit_step': rng.choice([1, 1, 2, 3]), 'length': rng.choice([3, 4, 5, 6]),
           'procs': [{'timestep': 1.0, 'mine': mine0}] + ([{'timestep': 2.0, 'mine': mine1}] if two else []),
           'cell_emit_all': rng.random() < 0.25, 'starstar': rng.random() < 0.3}
    # the RAM emitter's own table: event grid coarser than the emit grid, so the same snapshot reaches the emitter twice
    if rng.random() < 0.4:
        scn['ram'] = {'scale': rng.choice([2.5, 5.0]), 'emit_step': rng.choice([1, 2, 3]), 'length': rng.choice([10, 15])}
    return scn


def expected_flags(scn):
    flags = {v['name']: v['emit'] for v in scn['vars']}
    grp = {v['name']: v.get('group') for v in scn['vars']}
    if scn.get('cell_emit_all'):
        for n in flags:
            flags[n] = True
    for o in scn['overrides']:               # applied in order, like _apply_config walks the dictionary
        pass
    # store_schema is one dictionary: branch flags are applied when the branch is visited, leaf flags when the leaf is
    # visited below it; build the dictionary the same way build_schema() does and read the documented meaning:
    # "Setting an emit value for a branch node will set the emits of all the leaves to that value", then leaf
    # settings inside that dictionary refine it.
    branch = {}
    leaf = {}
    for o in scn['overrides']:
        if 'branch' in o:
            branch[o['branch']] = o['emit']
        else:
            leaf[o['leaf']] = o['emit']
    for n in flags:
        if grp[n] in branch:
            flags[n] = branch[grp[n]]
    for n, e in leaf.items():
        flags[n] = e
    return flags


def build_schema(scn):
    grp = {v['name']: v.get('group') for v in scn['vars']}
    cell = {}
    for o in scn['overrides']:
        if 'branch' in o:
            cell.setdefault(o['branch'], {})['_emit'] = o['emit']
    for o in scn['overrides']:
        if 'leaf' in o:
            node = cell.setdefault(grp[o['leaf']], {}) if grp[o['leaf']] else cell
            node.setdefault(o['leaf'], {})['_emit'] = o['emit']
    if scn.get('cell_emit_all'):
        cell['_emit'] = True
    return {'cell': cell} if cell else None


def flatten(d, pre=()):
    out = {}
    for k, v in d.items():
        if isinstance(v, dict) and not (set(v) == {'bare'}):
            out.update(flatten(v, pre + (k,)))
        else:
            out[pre + (k,)] = v
    return out


def oracle_row(eng, scn, flags):
    """what the row must contain now: read each leaf Store's value and apply the declared units / serializer here"""
    exp = {}
    for v in scn['vars']:
        if not flags[v['name']]:
            continue
        path = ('cell',) + ((v['group'],) if v.get('group') else ()) + (v['name'],)
        val = eng.state.get_path(path).value
        k = v['kind']
        if k in ('int', 'float'):
            e = val
        elif k == 'um':
            e = QSER.serialize(val.to(UM))          # quantities are emitted through the registered units serializer
        elif k == 'ser':
            e = {'bare': float(val.to(UM).magnitude)}
        elif k == 'list_um':
            e = [QSER.serialize(x.to(UM)) for x in val]
        exp[path] = e
    if scn.get('starstar') and scn.get('cell_emit_all'):
        # the schema-less variable below the branch is covered by the branch-level flag as well
        exp[('cell', 'w', 'x')] = eng.state.get_path(('cell', 'w')).value['x']
    return exp


def same(a, b):
    if isinstance(a, dict) and isinstance(b, dict):
        return set(a) == set(b) and all(same(a[k], b[k]) for k in a)
    if isinstance(a, (list, tuple)) and isinstance(b, (list, tuple)):
        return len(a) == len(b) and all(same(x, y) for x, y in zip(a, b))
    if isinstance(a, float) or isinstance(b, float):
        try:
            return abs(a - b) <= 1e-9 * max(1.0, abs(a), abs(b))
        except TypeError:
            return False
    return type(a) == type(b) and a == b


def run(scn, emit_step, ram=None, entry='parts'):
    flags = expected_flags(scn)
    procs, topo = {}, {}
    for i, p in enumerate(scn['procs']):
        ss = bool(scn.get('starstar')) and i == 0
        procs['p%d' % i] = Grow({'timestep': p['timestep'] * (ram['scale'] if ram else 1), 'vars': scn['vars'],
                                 'mine': p['mine'], 'starstar': ss})
        topo['p%d' % i] = {'cell': ('cell',), 'whole': ('cell', 'w')} if ss else {'cell': ('cell',)}
    init = {}
    for v in scn['vars']:
        if v['kind'] in ('um', 'ser') and v.get('init_unit'):
            node = init.setdefault('cell', {})
            if v.get('group'):
                node = node.setdefault(v['group'], {})
            node[v['name']] = q(3.0 if v['init_unit'] == 'um' else 0.003, v['init_unit'])
    if scn.get('starstar'):
        init.setdefault('cell', {})['w'] = {'x': 0}
    kw = {}
    ss = build_schema(scn)
    if ss:
        kw['store_schema'] = ss
    if ram:
        eng = Engine(processes=procs, topology=topo, initial_state=init, display_info=False, progress_bar=False,
                     emitter='timeseries', emit_step=emit_step, **kw)
        eng.update(ram['length'])
        return eng.emitter.get_data(), []
    if entry == 'store':
        # the same hierarchy handed over as a ready-made store: store_schema (emit flags) acts on it all the same
        from vivarium.core.store import generate_state
        store = generate_state(procs, topo, init)
        eng = Engine(store=store, display_info=False, progress_bar=False, emitter='null', emit_step=emit_step, **kw)
    else:
        eng = Engine(processes=procs, topology=topo, initial_state=init, display_info=False, progress_bar=False,
                     emitter='null', emit_step=emit_step, **kw)
    rows = []
    fails = []
    ser = eng.state.get_path(('cell',))

    def emit(cfg):
        if cfg.get('table') != 'history':
            return
        data = copy.deepcopy(cfg['data'])
        t = data.pop('time', None)
        got = flatten(data.get('cell', {}), ('cell',))
        # list of quantities: the row holds the serialised strings; compare against the oracle's serialisation
        exp = oracle_row(eng, scn, flags)
        rows.append((t, got))
        if t != eng.global_time:
            fails.append('row keyed %r emitted at global time %r' % (t, eng.global_time))
        extra = sorted(set(got) - set(exp))
        missing = sorted(set(exp) - set(got))
        if extra:
            fails.append('row at %s contains %s which is not flagged for emission' % (t, extra[:3]))
        if missing:
            fails.append('row at %s lacks %s which is flagged for emission' % (t, missing[:3]))
        for pth in set(got) & set(exp):
            if not same(got[pth], exp[pth]):
                fails.append('row at %s: %s is %r but the hierarchy holds %r (declared units / serializer applied)'
                             % (t, '/'.join(pth), got[pth], exp[pth]))
    eng.emitter.emit = emit
    # the constructor has already emitted the initial row into the null emitter: check it now as well
    eng._emit_store_data()
    rows.pop()
    eng.update(scn['length'])
    return rows, fails


def check(scn):
    try:
        rows1, fails = run(scn, 1)
        if scn['emit_step'] != 1 and not fails:
            rowsk, fails = run(scn, scn['emit_step'])
            by_t = dict(rows1)
            for t, got in rowsk:
                if t not in by_t:
                    fails.append('emit_step %s produced a row at %s that emit_step 1 does not have' % (scn['emit_step'], t))
                elif not same(by_t[t], got):
                    fails.append('emit_step %s: row at %s differs from the emit_step-1 row' % (scn['emit_step'], t))
            ts = [t for t, _ in rowsk]
            if any(b <= a for a, b in zip(ts, ts[1:])):
                fails.append('row times not strictly increasing: %s' % ts)
            if not rowsk:
                fails.append('emit_step %s produced no row in %s time units' % (scn['emit_step'], scn['length']))
        ts = [t for t, _ in rows1]
        if any(b <= a for a, b in zip(ts, ts[1:])):
            fails.append('row times not strictly increasing: %s' % ts)
        if scn.get('overrides') and not fails and not scn.get('starstar'):
            rows_s, fails = run(scn, 1, entry='store')
            if not fails and [(t, sorted(r)) for t, r in rows_s] != [(t, sorted(r)) for t, r in rows1]:
                k = next((i for i, (a_, b_) in enumerate(zip(rows_s, rows1)) if (a_[0], sorted(a_[1])) != (b_[0], sorted(b_[1]))), 0)
                fails.append('Engine(store=..., store_schema=...) emits other variables than Engine(processes=..., store_schema=...): '
                             'row %d holds %s / %s' % (k, sorted(rows_s[k][1]) if k < len(rows_s) else None, sorted(rows1[k][1])))
        if scn.get('ram') and not fails:
            ram = scn['ram']
            full, _ = run(scn, 1, ram)
            thin, _ = run(scn, ram['emit_step'], ram) if ram['emit_step'] != 1 else (full, [])
            for tbl, nm in ((full, 'emit_step 1'), (thin, 'emit_step %s' % ram['emit_step'])):
                ks = list(tbl)
                if any(b <= a for a, b in zip(ks, ks[1:])):
                    fails.append('RAM table (%s): row times not strictly increasing: %s' % (nm, ks))
            if 0 not in full or max(full) != ram['length']:
                fails.append('RAM table (emit_step 1) has rows %s for a run of %s' % (list(full), ram['length']))
            for t, row in thin.items():
                if t not in full:
                    fails.append('RAM table: emit_step %s has a row at %s that emit_step 1 does not have' % (ram['emit_step'], t))
                elif full[t] != row:
                    fails.append('RAM table: emit_step %s row at %s differs from the emit_step-1 row' % (ram['emit_step'], t))
    except Exception as e:   # noqa
        import traceback
        return ['engine raised %s: %s' % (type(e).__name__, str(e)[:200]), traceback.format_exc()[-600:]]
    return fails[:4]


# ---- values of application types serialised by a custom Serializer registered for their BASE type ------------------
class Molecule:
    def __init__(self, count):
        self.count = count


class Glucose(Molecule):
    pass


class Atp(Molecule):
    pass


class Nadh(Molecule):
    pass


class MoleculeSerializer(Serializer):
    python_type = Molecule

    def serialize(self, data):
        return '!Molecule[%s:%s]' % (type(data).__name__, data.count)


class Metabolism(Process):
    defaults = {'timestep': 1.0, 'kinds': []}

    def ports_schema(self):
        kinds = {'Glucose': Glucose, 'Atp': Atp, 'Nadh': Nadh}
        return {'pool': {'v%d' % i: {'_default': {'main': kinds[k](10)}, '_updater': 'set', '_emit': True}
                         for i, k in enumerate(self.parameters['kinds'])}}

    def next_update(self, timestep, states):
        kinds = {'Glucose': Glucose, 'Atp': Atp, 'Nadh': Nadh}
        return {'pool': {'v%d' % i: {'main': kinds[k](states['pool']['v%d' % i]['main'].count + 1)}
                         for i, k in enumerate(self.parameters['kinds'])}}


def check_object_rows(kinds, ticks=3):
    """rows produced through the RAM emitter (which applies the registered serializers): one row per time, every flagged
    variable present, serialised by the custom serializer of its base type -- for several subclasses, in several engines"""
    import warnings
    ser = MoleculeSerializer()
    if serializer_registry.access(ser.name) is None:
        serializer_registry.register(ser.name, ser)
    fails = []
    with warnings.catch_warnings():
        warnings.simplefilter('ignore')
        try:
            sim = Engine(processes={'m': Metabolism({'kinds': kinds})}, topology={'m': {'pool': ('pool',)}}, display_info=False)
            sim.update(ticks)
            data = sim.emitter.get_data()
        except Exception as e:
            return ['emitting values of %s through the base-type serializer raised %s: %s' % (kinds, type(e).__name__, str(e)[:160])]
    if sorted(data) != [float(t) for t in range(ticks + 1)]:
        fails.append('rows at times %s, expected one per time 0..%d' % (sorted(data), ticks))
    for t in sorted(data):
        want = {'v%d' % i: {'main': '!Molecule[%s:%d]' % (k, 10 + int(t))} for i, k in enumerate(kinds)}
        if data[t].get('pool') != want:
            fails.append('row at %s is %r, expected %r' % (t, data[t].get('pool'), want))
    return fails[:3]


OBJECT_CASES = [['Glucose'], ['Glucose', 'Atp'], ['Atp', 'Nadh', 'Glucose'], ['Nadh'], ['Atp', 'Glucose']]


def check_shared_table(order, embed):
    """several emitters write ONE table (shared_ram; an embedded engine writes below embed_path): a row is the union of what was
    emitted for its time, whoever wrote last; the same content again is accepted, different content for one time is refused"""
    from vivarium.core.emitter import SharedRamEmitter, RAMEmitter
    fails = []
    SharedRamEmitter.saved_data.clear()
    try:
        outer = SharedRamEmitter({})
        inner = SharedRamEmitter({'embed_path': tuple(embed)})
        node = {'boundary': {'uptake': 1.5}}
        for name in reversed(embed):
            node = {name: node}
        rows_outer = {t: dict(copy.deepcopy(node), fields={'glc': float(t)}) for t in (0.0, 1.0, 2.0)}
        rows_inner = {t: {'internal': {'m': 2.0 + t, 'label': 'x'}} for t in (0.0, 1.0, 2.0)}
        for t in (0.0, 1.0, 2.0):
            for who in (order if t != 1.0 else order[::-1]):
                if who == 'outer':
                    outer.emit({'table': 'history', 'data': dict(copy.deepcopy(rows_outer[t]), time=t)})
                else:
                    inner.emit({'table': 'history', 'data': dict(copy.deepcopy(rows_inner[t]), time=t)})
        data = outer.get_data()
        for t in (0.0, 1.0, 2.0):
            row = data.get(t, {})
            at = row
            for name in embed:
                at = at.get(name, {}) if isinstance(at, dict) else {}
            if not isinstance(at, dict) or at.get('boundary') != {'uptake': 1.5} or at.get('internal') != rows_inner[t]['internal'] \
                    or row.get('fields') != {'glc': float(t)}:
                fails.append('shared table, row %s: holds %r; emitted were %r by the outer and %r below %s by the embedded emitter'
                             % (t, row, rows_outer[t], rows_inner[t], tuple(embed)))
        # the same row again is accepted and changes nothing; a different value for a recorded variable is refused
        before = copy.deepcopy(outer.get_data())
        inner.emit({'table': 'history', 'data': dict(copy.deepcopy(rows_inner[1.0]), time=1.0)})
        if outer.get_data() != before:
            fails.append('re-emitting an identical row changed the table')
        try:
            inner.emit({'table': 'history', 'data': {'internal': {'m': -1.0}, 'time': 1.0}})
            fails.append('a second, DIFFERENT value for a variable at a recorded time was accepted: row 1.0 is now %r'
                         % (outer.get_data().get(1.0),))
        except ValueError:
            pass
        private = RAMEmitter({})
        private.emit({'table': 'history', 'data': {'a': {'x': 1}, 'time': 0.0}})
        try:
            private.emit({'table': 'history', 'data': {'a': {'x': 2}, 'time': 0.0}})
            fails.append('a private RAM emitter accepted two different rows for one time: %r' % (private.get_data(),))
        except ValueError:
            pass
    except Exception as e:
        fails.append('shared table scenario raised %s: %s' % (type(e).__name__, str(e)[:160]))
    finally:
        SharedRamEmitter.saved_data.clear()
    return fails[:3]


class Census(Process):
    """only flags the agents' mass for emission"""
    defaults = {'timestep': 1.0}

    def ports_schema(self):
        return {'agents': {'*': {'mass': {'_emit': True}}}}

    def next_update(self, timestep, states):
        return {}


class Growth(Process):
    defaults = {'timestep': 1.0}

    def __init__(self, parameters=None):
        super().__init__(parameters)
        self.k = 0

    def ports_schema(self):
        return {'agents': {'*': {'mass': {'_default': 1.0, '_updater': 'accumulate'}, 'aux': {'_default': 0}}}}

    def next_update(self, timestep, states):
        self.k += 1
        up = {a: {'mass': 1.0} for a in states['agents']}
        if self.k == 2:
            up['_add'] = [{'key': 'b', 'state': {}}]
        return {'agents': up}


def check_two_declarers(order):
    """two processes declare the glob schema of one store: one only sets the emit flag of a variable, the other its default and updater
    (in either listing order): every agent in the hierarchy -- also one added later -- is in the rows with that variable"""
    procs = {'census': Census(), 'growth': Growth()}
    try:
        eng = Engine(processes={k: procs[k] for k in order}, topology={k: {'agents': ('agents',)} for k in order},
                     initial_state={'agents': {'a': {}}}, display_info=False, progress_bar=False)
        eng.update(4)
        data = eng.emitter.get_data()
        held = eng.state.get_value()['agents']
    except Exception as e:
        return ['two glob declarers (%s) raised %s: %s' % (order, type(e).__name__, str(e)[:160])]
    fails = []
    last = data[max(data)].get('agents', {})
    want = {a: {'mass': v['mass']} for a, v in held.items()}
    if last != want:
        fails.append('listing %s: the last row holds agents %r; the hierarchy holds %r and `mass` is flagged for every agent' % (order, last, want))
    if data[0].get('agents') != {'a': {'mass': 1.0}}:
        fails.append('listing %s: the initial row holds agents %r, expected {a: {mass: 1.0}}' % (order, data[0].get('agents')))
    return fails


SHARED_CASES = [(order, embed) for order in (('outer', 'inner'), ('inner', 'outer')) for embed in (['agents', '0'], ['cell'])]


def main():
    ap = argparse.ArgumentParser()
    ap.add_argument('--tier', default='quick'); ap.add_argument('--seed', type=int, default=0)
    ap.add_argument('--out', default='out/replays'); ap.add_argument('--replay', default=None)
    a = ap.parse_args()
    if a.replay:
        scn = json.load(open(a.replay))['scenario']
        fails = check_two_declarers(tuple(scn['declarers'])) if 'declarers' in scn else \
            check_shared_table(tuple(scn['shared'][0]), scn['shared'][1]) if 'shared' in scn else \
            check_object_rows(scn['object_kinds']) if 'object_kinds' in scn else check(scn)
        L.emit_result({'status': 'reproduced' if fails else 'not-reproduced', 'failed': fails})
        return
    n = 300 if a.tier == 'quick' else 5000
    evaluations = 0; failures = []; samples = []; distinct = set()
    for i in range(n):
        rng = random.Random('c12-%d-%d' % (a.seed, i))
        scn = gen(rng, a.tier)
        evaluations += 1
        fails = check(scn)
        if any(v['kind'] in ('um', 'ser', 'list_um') and v['emit'] for v in scn['vars']):
            distinct.add(json.dumps(scn, sort_keys=True))
        if len(samples) < 2:
            samples.append({'vars': [(v['name'], v['kind'], v['emit'], v['group']) for v in scn['vars']],
                            'overrides': scn['overrides'], 'emit_step': scn['emit_step']})
        if fails:
            rp = L.write_replay(a.out, 'C12', 'rows%d' % i, scn, fails, extra={'driver': 'bounded.c12'})
            failures.append({'id': 'C12.bounded.rows#%d: %s' % (i, fails[0][:260]), 'replay': rp})
            if len(failures) >= 3:
                break
    for oi, kinds in enumerate(OBJECT_CASES):
        if len(failures) >= 3:
            break
        evaluations += 1
        fails = check_object_rows(kinds)
        distinct.add('objects-%d' % oi)
        if fails:
            rp = L.write_replay(a.out, 'C12', 'objects%d' % oi, {'object_kinds': kinds}, fails, extra={'driver': 'bounded.c12'})
            failures.append({'id': 'C12.bounded.objects#%d: %s' % (oi, fails[0][:260]), 'replay': rp})
    for order in (('census', 'growth'), ('growth', 'census')):
        if len(failures) >= 3:
            break
        evaluations += 1
        distinct.add('declarers-' + order[0])
        fails = check_two_declarers(order)
        if fails:
            rp = L.write_replay(a.out, 'C12', 'declarers-' + order[0], {'declarers': list(order)}, fails, extra={'driver': 'bounded.c12'})
            failures.append({'id': 'C12.bounded.two-declarers[%s first]: %s' % (order[0], fails[0][:260]), 'replay': rp})
    for si, (order, embed) in enumerate(SHARED_CASES):
        if len(failures) >= 3:
            break
        evaluations += 1
        distinct.add('shared-%d' % si)
        fails = check_shared_table(order, embed)
        if fails:
            rp = L.write_replay(a.out, 'C12', 'shared%d' % si, {'shared': [list(order), embed]}, fails, extra={'driver': 'bounded.c12'})
            failures.append({'id': 'C12.bounded.shared-table#%d: %s' % (si, fails[0][:260]), 'replay': rp})
    L.emit_result({'status': 'violated' if failures else 'ok', 'evaluations': evaluations,
                   'distinct_nontrivial': len(distinct), 'failures': failures, 'samples': samples,
                   'rule': 'seeded random (variables, kinds, emit flags, store_schema overrides, emit_step, run length); '
                           'non-trivial = at least one emitted unit-bearing or custom-serialised variable; distinct by scenario',
                   'bound': __doc__.split('Bound:')[1].split('\n\n')[0].strip() if 'Bound:' in __doc__ else ''})


if __name__ == '__main__':
    main()
