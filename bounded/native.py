"""Native (CPython) evaluation of sidecar contracts against the REAL functions in /repo.

Runs under /venv/bin/python (which imports vivarium from /repo's working tree).
Three uses:
  * replay of a verifier counterexample   (--replay FILE)
  * bounded search for a failing input    (--search N)    [bounded stand-in, never counted as proved]
  * CPython cross-check of the executable specification against the code (same search, inputs that
    satisfy the precondition must satisfy the postcondition)
Prints one JSON object on stdout.
"""
import argparse
import ast
import copy
import importlib
import itertools
import json
import math
import os
import random
import sys
import traceback

HERE = os.path.dirname(os.path.dirname(os.path.abspath(__file__)))
sys.path.insert(0, HERE)

from pyvc import spec as S   # noqa: E402

SPEC_MODULES = ['specs.c_topology', 'specs.c_registry', 'specs.c_runfor', 'specs.c_dicts', 'specs.c_timeline', 'specs.c_emitter',
                'specs.c_engine', 'specs.c_store', 'specs.c_process', 'specs.c_composer', 'specs.c_apply', 'specs.c_embed', 'specs.c_emit', 'specs.c_emit2']


def load_specs():
    for m in SPEC_MODULES:
        try:
            importlib.import_module(m)
        except ModuleNotFoundError as e:
            if m.split('.')[-1] not in str(e):
                raise


# ---- native meaning of spec primitives ---------------------------------------------------------

class Unevaluable(Exception):
    pass


def _forall(*a, **k):
    raise Unevaluable('unbounded quantifier')


def forall_range(lo, hi, f):
    return all(f(j) for j in range(lo, hi))


def exists_range(lo, hi, f):
    return any(f(j) for j in range(lo, hi))


def forall_keys(d, f):
    return all(f(k) for k in list(d.keys()))


def implies(a, b):
    return (not a) or b


def iff(a, b):
    return bool(a) == bool(b)


def is_node(t):
    return isinstance(t, dict)


def is_leaf(t):
    return not isinstance(t, (dict, list))


def is_list(t):
    return isinstance(t, list)


def has(t, k):
    return isinstance(t, dict) and k in t


def child(t, k):
    return t[k] if isinstance(t, dict) and k in t else None


def tree_put(t, k, v):
    out = dict(t) if isinstance(t, dict) else {}
    out[k] = v
    return out


def tree_remove(t, k):
    out = dict(t)
    out.pop(k, None)
    return out


def is_none(x):
    return x is None


def some(x):
    return x


def lookup(m, k):
    return m[k]


def map_put(m, k, v):
    out = dict(m)
    out[k] = v
    return out


def map_remove(m, k):
    out = dict(m)
    out.pop(k, None)
    return out


def list_len(t):
    return len(t)


def list_item(t, i):
    return t[i]


def list2(a, b):
    return [a, b]


def list_append(t, x):
    return list(t) + [x]


def leaf_none():
    return None


def tree_rank(t):
    return 1 + max([tree_rank(v) for v in t.values()] + [0]) if isinstance(t, dict) else 0


def is_inf(x):
    return x == math.inf


def finite(x):
    return x


NATIVE = dict(forall=_forall, exists=_forall, forall_range=forall_range, exists_range=exists_range,
              forall_keys=forall_keys, implies=implies, iff=iff, is_node=is_node, is_leaf=is_leaf, is_list=is_list,
              has=has, child=child, tree_put=tree_put, tree_remove=tree_remove, is_none=is_none, some=some,
              lookup=lookup, map_put=map_put, map_remove=map_remove, list_len=list_len, list_item=list_item,
              list2=list2, list_append=list_append, leaf_none=leaf_none, is_inf=is_inf, finite=finite, tree_rank=tree_rank,
              ABSENT=None, EMPTY_NODE={}, math=math)


def native_env():
    env = dict(NATIVE)
    for name, g in S.GHOSTS.items():
        env[name] = getattr(g.fn, '__wrapped_native__', g.fn)
    return env


# ---- values ---------------------------------------------------------------------------------

def to_native(v, ty):
    """JSON value -> Python value of the contract type (tuples for Seq/Path)."""
    ty = ty.strip() if isinstance(ty, str) else ty
    if v is None:
        return None
    if isinstance(v, dict) and set(v) == {'$inf'}:
        return math.inf
    if ty in ('Path',) or (isinstance(ty, str) and ty.startswith('Seq[')):
        inner = 'Atom' if ty == 'Path' else ty[4:-1]
        return tuple(to_native(x, inner) for x in v)
    if isinstance(ty, str) and ty.startswith('Opt['):
        return to_native(v, ty[4:-1])
    if isinstance(ty, str) and ty.startswith('Tup['):
        return tuple(v)
    if ty == 'Tree':
        return tree_native(v)
    return v


def tree_native(v):
    if isinstance(v, dict):
        if set(v) == {'$inf'}:
            return math.inf
        return {k: tree_native(x) for k, x in v.items()}
    if isinstance(v, list):
        return [tree_native(x) for x in v]
    return v


def jsonable(v):
    if isinstance(v, float) and math.isinf(v):
        return {'$inf': 1}
    if isinstance(v, (tuple, list)):
        return [jsonable(x) for x in v]
    if isinstance(v, dict):
        return {str(k): jsonable(x) for k, x in v.items()}
    if isinstance(v, (int, float, str, bool)) or v is None:
        return v
    return repr(v)


# ---- generators -------------------------------------------------------------------------------

INTS = [0, 1, 2, 3, -1, -2, -3, 7, 8, 2 ** 53 + 3, -(2 ** 53) - 1, 10 ** 30 + 1]
REALS = [0.0, 1.0, 0.5, -1.5, 2.25, 3.0, 1e300, 0.1]
LEAVES = [0, 1, None, 'x', False, 2.5]


def gen_tree(rng, depth, keys):
    if depth == 0 or rng.random() < 0.25:
        return rng.choice(LEAVES + [{}])
    out = {}
    for k in keys:
        if rng.random() < 0.6:
            out[k] = gen_tree(rng, depth - 1, keys)
    return out


def all_trees(depth, keys):
    if depth == 0:
        return list(LEAVES[:4]) + [{}]
    sub = all_trees(depth - 1, keys)
    out = list(LEAVES[:3])
    opts = [None] + list(range(len(sub)))
    for combo in itertools.product(opts, repeat=len(keys)):
        out.append({k: copy.deepcopy(sub[i]) for k, i in zip(keys, combo) if i is not None})
    return out


def gen_value(rng, ty, tier, atoms, depth=None):
    ty = ty.strip()
    if ty == 'Int':
        return rng.choice(INTS)
    if ty == 'Real':
        return rng.choice(REALS)
    if ty == 'XReal':
        return rng.choice(REALS + [math.inf])
    if ty == 'Bool':
        return rng.random() < 0.5
    if ty in ('Atom', 'Str'):
        return rng.choice(atoms)
    if ty == 'Val':
        return rng.choice(LEAVES)
    if ty == 'Path':
        n = rng.choice([0, 1, 1, 2, 2, 3, 3, 4] if tier == 'thorough' else [0, 1, 1, 2, 2, 3])
        return tuple(rng.choice(atoms) for _ in range(n))
    if ty == 'Tree':
        return gen_tree(rng, depth or (3 if tier == 'thorough' else 2), [a for a in atoms if a != '..'][:3])
    if ty.startswith('Seq['):
        n = rng.choice([0, 1, 2, 3])
        return tuple(gen_value(rng, ty[4:-1], tier, atoms) for _ in range(n))
    if ty.startswith('Opt['):
        return None if rng.random() < 0.3 else gen_value(rng, ty[4:-1], tier, atoms)
    if ty.startswith('Map['):
        k, v = _split(ty[4:-1])
        return {_hashable(gen_value(rng, k, tier, atoms)): gen_value(rng, v, tier, atoms) for _ in range(rng.choice([0, 1, 2, 3]))}
    if ty.startswith('Tup['):
        return tuple(gen_value(rng, t, tier, atoms) for t in _split(ty[4:-1]))
    if ty.startswith('Fun['):
        return None
    raise Unevaluable('no generator for type %s' % ty)


def _hashable(v):
    return v


def _split(s):
    out, depth, cur = [], 0, ''
    for ch in s:
        if ch in '[{':
            depth += 1
        elif ch in ']}':
            depth -= 1
        if ch == ',' and depth == 0:
            out.append(cur)
            cur = ''
        else:
            cur += ch
    if cur.strip():
        out.append(cur)
    return [x.strip() for x in out]


# ---- contract evaluation ---------------------------------------------------------------------

def get_real_function(con):
    mod = importlib.import_module(con.module)
    obj = mod
    for p in con.qual.split('.'):
        obj = getattr(obj, p)
    return obj


class Evaluation:
    def __init__(self):
        self.status = None     # ok | pre-false | post-false | raised | unevaluable
        self.clause = None
        self.detail = None


def evaluate(con, fn, inputs, instance=None, funs=None):
    """Call the real function on (a deep copy of) inputs and evaluate the contract natively."""
    ev = Evaluation()
    env = native_env()
    args = copy.deepcopy(inputs)
    old = copy.deepcopy(inputs)
    env.update(args)
    reqs = list(con.requires) + (instance.get('requires', []) if instance else [])
    ens = list(con.ensures) + (instance.get('ensures', []) if instance else [])
    try:
        for r in reqs:
            if not eval(r, env):
                ev.status = 'pre-false'
                ev.clause = r
                return ev
    except Unevaluable as e:
        ev.status = 'unevaluable'
        ev.detail = 'requires: %s' % e
        return ev
    except Exception as e:
        ev.status = 'pre-false'
        ev.clause = 'requires raised %s: %s' % (type(e).__name__, e)
        return ev
    allowed_raise = None
    if con.raises is not None:
        w = con.raises.get('when')
        allowed_raise = bool(eval(w, env)) if w else True
    try:
        ret = fn(**args)
    except Exception as e:
        if allowed_raise:
            ev.status = 'ok'
            ev.detail = 'raised as specified'
            return ev
        ev.status = 'raised'
        ev.clause = 'no exception expected'
        ev.detail = '%s: %s' % (type(e).__name__, str(e)[:300])
        return ev
    if allowed_raise and con.raises.get('when'):
        ev.status = 'post-false'
        ev.clause = 'must raise when ' + con.raises['when']
        return ev
    # frame of the by-value model: an argument that the contract does not list under `mutates` must not have been
    # modified in place (this is the run-time counterpart of the ownership / value-semantics assumption of PyVC)
    for pname, before in old.items():
        if pname in con.mutates or callable(before):
            continue
        try:
            same = (args[pname] == before)
            same = bool(same) if not hasattr(same, 'all') else bool(same.all())
        except Exception:
            same = True
        if not same:
            ev.status = 'post-false'
            ev.clause = 'argument %s is not modified (it is not listed under mutates)' % pname
            ev.detail = 'before %r after %r' % (before, args[pname])
            return ev
    env.update(args)
    env['ret'] = ret
    env['old'] = lambda x: x

    class OldProxy:
        pass
    # old(expr): evaluate expr in the entry environment
    old_env = native_env()
    old_env.update(old)

    def eval_clause(src):
        tree = ast.parse(src, mode='eval')

        class Rew(ast.NodeTransformer):
            def visit_Call(self, n):
                self.generic_visit(n)
                if isinstance(n.func, ast.Name) and n.func.id == 'old':
                    code = compile(ast.Expression(body=n.args[0]), '<old>', 'eval')
                    key = '__old_%d' % len(env)
                    env[key] = eval(code, old_env)
                    return ast.copy_location(ast.Name(id=key, ctx=ast.Load()), n)
                return n
        tree = ast.fix_missing_locations(Rew().visit(tree))
        return eval(compile(tree, '<spec>', 'eval'), env)
    for e in ens:
        try:
            okc = eval_clause(e)
        except Unevaluable as ex:
            continue
        except Exception as ex:
            ev.status = 'post-false'
            ev.clause = e
            ev.detail = 'clause raised %s: %s' % (type(ex).__name__, str(ex)[:200])
            ev.ret = jsonable(ret)
            return ev
        if not okc:
            ev.status = 'post-false'
            ev.clause = e
            ev.detail = 'ret=%r' % (ret,)
            return ev
    ev.status = 'ok'
    return ev


def param_types(con, instance):
    t = dict(con.types)
    if instance:
        t.update(instance.get('types', {}))
    return t


def fn_params(fn):
    import inspect
    return [p for p in inspect.signature(fn).parameters if p != 'self']


def source_atoms(con):
    base = ['a', 'b', '..'] + list(con.atoms)
    return base


def search(con, instance, n, seed, tier):
    fn = get_real_function(con)
    types = param_types(con, instance)
    params = fn_params(fn)
    rng = random.Random(seed)
    atoms = source_atoms(con) + (['c'] if tier == 'thorough' else [])
    evaluated = satisfied = 0
    distinct = set()
    samples = []
    failures = []
    fun_params = [p for p in params if types.get(p, '').startswith('Fun[')]
    for it in range(n):
        try:
            inputs = {p: gen_value(rng, types[p], tier, atoms, con.gen_depth) for p in params if p not in fun_params}
        except KeyError as e:
            return {'status': 'error', 'reason': 'no type for parameter %s' % e}
        for p in fun_params:
            inputs[p] = _PURE_FUNS[it % len(_PURE_FUNS)]
        evaluated += 1
        ev = evaluate(con, fn, inputs, instance)
        if ev.status == 'unevaluable':
            return {'status': 'unevaluable', 'reason': ev.detail, 'evaluations': evaluated}
        if ev.status == 'pre-false':
            continue
        satisfied += 1
        key = json.dumps(jsonable({k: v for k, v in inputs.items() if k not in fun_params}), sort_keys=True, default=repr)
        distinct.add(key)
        if len(samples) < 3:
            samples.append(jsonable({k: v for k, v in inputs.items() if k not in fun_params}))
        if ev.status in ('post-false', 'raised'):
            failures.append({'inputs': jsonable({k: v for k, v in inputs.items() if k not in fun_params}),
                             'clause': ev.clause, 'detail': ev.detail})
            if len(failures) >= 3:
                break
    return {'status': 'violated' if failures else 'ok', 'evaluations': evaluated, 'satisfying_pre': satisfied,
            'distinct_nontrivial': len(distinct), 'failures': failures, 'samples': samples}


def _f_id(x):
    return x


def _f_const(x):
    return {'z': 1}


def _f_wrap(x):
    return {'w': x}


_PURE_FUNS = [_f_id, _f_const, _f_wrap]


def replay(con, instance, data):
    fn = get_real_function(con)
    types = param_types(con, instance)
    inputs = {}
    for p in fn_params(fn):
        if p in data['inputs']:
            inputs[p] = to_native(data['inputs'][p], types.get(p, 'Tree'))
        elif types.get(p, '').startswith('Fun['):
            inputs[p] = _f_id
    ev = evaluate(con, fn, inputs, instance)
    return {'status': {'ok': 'not-reproduced', 'pre-false': 'not-reproduced', 'unevaluable': 'unevaluable',
                       'post-false': 'reproduced', 'raised': 'reproduced'}[ev.status],
            'native_status': ev.status, 'clause': ev.clause, 'detail': ev.detail}


def main():
    ap = argparse.ArgumentParser()
    ap.add_argument('--contract', required=True)
    ap.add_argument('--instance', default=None)
    ap.add_argument('--replay', default=None)
    ap.add_argument('--search', type=int, default=0)
    ap.add_argument('--seed', type=int, default=0)
    ap.add_argument('--tier', default='quick')
    a = ap.parse_args()
    load_specs()
    con = S.CONTRACTS[a.contract]
    inst = None
    if a.instance:
        inst = [i for i in con.instances if i['name'] == a.instance][0]
    try:
        if a.replay:
            data = json.load(open(a.replay))
            out = replay(con, inst, data)
        else:
            out = search(con, inst, a.search, a.seed, a.tier)
    except Exception as e:
        out = {'status': 'error', 'reason': '%s: %s' % (type(e).__name__, e), 'trace': traceback.format_exc()[-1500:]}
    print(json.dumps(out, default=repr))


if __name__ == '__main__':
    main()
