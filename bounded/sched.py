"""Bounded scenario driver for the scheduling properties C01, C02, C03 (and the event discipline of C12).

LABEL: bounded stand-in (never counted as proved).  Bound: composites of 1..3 (quick) / 1..4 (thorough)
accumulating processes, timesteps from {0.25,0.5,0.75,1,1.25,2,3} (or the 10^-1 grid with precision 1),
conditions from {always, never, state flag, alternating}, adaptive timestep scripts of length <= 3,
1..3 run_for/update calls with lengths from {0.5,1,2,3,10}, serial execution.
"""
import argparse
import json
import random
import sys

from bounded import lib as L


def oracle(prop, tr, eng, scn, err):
    final_forced = bool(scn['calls'][-1]['force'])
    fails = []
    if err and err[0] != 'hang':
        fails.append('engine raised: %s' % (err[1],))
        return fails
    if prop == 'C03' or (err and err[0] == 'hang'):
        fails += L.check_c03(tr, eng, scn, err)
        if err:
            return fails
    if prop in ('C01', 'C04'):
        # C04: what a process is shown is the committed state = every update due at or before that instant and no other
        fails += L.check_c01(tr, eng, scn, final_forced)
        # observable form: accumulating variable at each emit == sum of updates applied up to then
        fails += observable_c01(tr, eng, scn)
    if prop == 'C02':
        fails += L.check_c02(tr, eng, scn, final_forced)
    if prop == 'C12':
        fails += L.check_c12_rows(tr, eng, scn)
    return fails


def observable_c01(tr, eng, scn):
    fails = []
    data = eng.emitter.get_data()
    led = [t for t in L.ledger(tr) if t['start'] is not None]
    # amounts per token from the user-side call log, in order per process
    calls = {}
    for c in tr.calls:
        if c[0] == 'next_update':
            calls.setdefault(c[1], []).append(c[4])
    per = {}
    for t in led:
        per.setdefault(t['path'][-1], []).append(t)
    for T, row in data.items():
        s = row.get('s', {})
        total = 0
        for n, toks in per.items():
            ams = calls.get(n, [])
            exp = sum(a for t, a in zip(toks, ams) if t['start'] + t['dt'] <= T + L.TOL)
            total += exp
            if 'x_' + n in s and s['x_' + n] != exp:
                fails.append('x_%s at emitted time %s is %s, expected %s (sum of updates whose interval ended <= T)'
                             % (n, T, s['x_' + n], exp))
        if 'total' in s and s['total'] != total:
            fails.append('total at emitted time %s is %s, expected %s' % (T, s['total'], total))
    return fails[:5]


ECHO_CASES = [{'view': view, 'calls': calls, 'slow': slow}
              for view in ('same', 'transpose', 'flip')
              for calls in ([['update', 9]], [['run_for', 2], ['run_for', 2.5], ['update', 4.5]])
              for slow in (2.0, 3.0)]


def check_echo(case):
    """array-valued accumulate variables: a slow process puts the array it was handed (or a numpy view of it) into its
    update while a fast process keeps updating that variable.  The update applied is the one RETURNED: the history is the
    same as when the slow process returns a private copy, and the same in both listing orders (metamorphic oracle)."""
    import numpy as np
    from vivarium.core.engine import Engine
    from vivarium.core.process import Process

    class Drip(Process):
        defaults = {'timestep': 1.0}

        def ports_schema(self):
            return {'pool': {'field': {'_default': np.array([1.0, 2.0, 3.0]), '_emit': True}}}

        def next_update(self, timestep, states):
            return {'pool': {'field': np.ones(3) * timestep}}

    class Echo(Process):
        defaults = {'timestep': 3.0, 'copy': False, 'view': 'same'}

        def ports_schema(self):
            return {'pool': {'field': {'_default': np.array([1.0, 2.0, 3.0]), '_emit': True},
                             'tally': {'_default': np.zeros(3), '_emit': True}}}

        def next_update(self, timestep, states):
            v = states['pool']['field']
            if self.parameters['view'] == 'transpose':
                v = v.T
            elif self.parameters['view'] == 'flip':
                v = v[::-1]
            return {'pool': {'tally': v.copy() if self.parameters['copy'] else v}}

    def run(order, copy_):
        procs = {'drip': Drip(), 'echo': Echo({'timestep': case['slow'], 'copy': copy_, 'view': case['view']})}
        procs = {k: procs[k] for k in order}
        eng = Engine(processes=procs, topology={k: {'pool': ('pool',)} for k in order}, display_info=False, progress_bar=False)
        for kind, dt in case['calls']:
            if kind == 'update':
                eng.update(dt)
            else:
                eng.run_for(dt)
        data = eng.emitter.get_data()
        return {t: {k: [float(x) for x in v] for k, v in row['pool'].items()} for t, row in data.items()}
    try:
        ref = run(('drip', 'echo'), True)
        alias = run(('drip', 'echo'), False)
        other = run(('echo', 'drip'), False)
    except Exception as e:
        return ['engine raised %s: %s' % (type(e).__name__, str(e)[:200])]
    fails = []
    for name, got in (('the process returns the array it was handed', alias), ('the other listing order', other)):
        if got != ref:
            t = next((t for t in ref if got.get(t) != ref[t]), None)
            fails.append('%s: at t=%s the variables are %s; with a private copy returned they are %s'
                         % (name, t, got.get(t), ref.get(t)))
    return fails


TIME_NAMED_CASES = [{'precision': pr, 'dt': dt, 'emit': em} for pr in (None, 1) for dt in (0.1, 0.5) for em in (True, False)]


def check_time_named(case):
    """a model may have a variable of its own called `time` at the top of the hierarchy (a stopwatch summing its timesteps in
    floating point): the rows of the history are keyed by the ENGINE's clock -- increasing, on the precision grid, the last one
    at the time update() returned -- whatever that variable holds"""
    from vivarium.core.engine import Engine
    from vivarium.core.process import Process

    class Stopwatch(Process):
        defaults = {'timestep': 0.1, 'emit': True}

        def ports_schema(self):
            return {'global_time': {'_default': 0.0, '_updater': 'accumulate', '_emit': self.parameters['emit']},
                    'other': {'n': {'_default': 0, '_emit': True}}}

        def next_update(self, timestep, states):
            return {'global_time': timestep * 1.0000001, 'other': {'n': 1}}
    try:
        eng = Engine(processes={'clock': Stopwatch({'timestep': case['dt'], 'emit': case['emit']})},
                     topology={'clock': {'global_time': ('time',), 'other': ('other',)}},
                     global_time_precision=case['precision'], display_info=False, progress_bar=False)
        stamps = []
        orig = eng.emitter.emit

        def spy(cfg):
            if cfg.get('table') == 'history':
                stamps.append((cfg['data'].get('time'), eng.global_time))
            return orig(cfg)
        eng.emitter.emit = spy
        eng.update(1.0)
        keys = list(eng.emitter.get_data())
    except Exception as e:
        return ['engine raised %s: %s' % (type(e).__name__, str(e)[:200])]
    fails = []
    bad = [(st, gt) for st, gt in stamps if st != gt]
    if bad:
        fails.append('history rows are stamped %s while the engine clock read %s' % ([b[0] for b in bad[:4]], [b[1] for b in bad[:4]]))
    if keys and (keys[-1] != eng.global_time or any(b <= a for a, b in zip(keys, keys[1:]))):
        fails.append('time keys of the history are %s, the run ended at %r' % (keys[-4:], eng.global_time))
    if case['precision'] is not None and any(round(k, case['precision']) != k for k in keys):
        fails.append('time keys off the 10^-%d grid: %s' % (case['precision'], [k for k in keys if round(k, case['precision']) != k][:4]))
    return fails[:3]


LAG_CASES = [{'first': 4.0, 'later': 0.5, 'calls': [10.0], 'then': 5.0}, {'first': 3.0, 'later': 1.0, 'calls': [2.0, 2.0], 'then': 3.0},
             {'first': 2.0, 'later': 0.25, 'calls': [1.5], 'then': 1.5}]


def check_lagging_shrink(case):
    """C02 inside the region of the recorded finding F-C03-shrink (a process left behind the clock by an unforced run_for answers a
    timestep shorter than its lag): whatever the clock does there, the process is handed timesteps that add up to the time it has been
    simulated for once update() has completed it -- the timestep handed is the length of the interval covered"""
    from vivarium.core.engine import Engine
    from vivarium.core.process import Process
    handed = []

    class Adaptive(Process):
        defaults = {}

        def ports_schema(self):
            return {'s': {'x': {'_default': 0.0}}, 'ctl': {'dt': {'_default': case['first']}}}

        def calculate_timestep(self, states):
            return states['ctl']['dt']

        def next_update(self, timestep, states):
            handed.append(timestep)
            return {'s': {'x': timestep}}

    class Controller(Process):
        defaults = {'timestep': 1.0}

        def ports_schema(self):
            return {'ctl': {'dt': {'_default': case['first'], '_updater': 'set'}}}

        def next_update(self, timestep, states):
            return {}
    try:
        eng = Engine(processes={'adaptive': Adaptive(), 'controller': Controller()},
                     topology={'adaptive': {'s': ('s',), 'ctl': ('ctl',)}, 'controller': {'ctl': ('ctl',)}}, display_info=False, emitter='null')
        for dt in case['calls']:
            eng.run_for(dt)
        eng.state.get_path(('ctl', 'dt')).value = case['later']
        eng.update(case['then'])
    except Exception as e:
        return ['lagging process with a shrinking timestep raised %s: %s' % (type(e).__name__, str(e)[:160])]
    total = sum(case['calls']) + case['then']
    x = eng.state.get_value()['s']['x']
    if abs(sum(handed) - total) > 1e-9 or abs(x - total) > 1e-9:
        return ['the process was handed the timesteps %s (sum %s) and advanced its variable by %s, but %s time units were simulated when '
                'update() returned' % (handed, sum(handed), x, total)]
    return []


def main():
    ap = argparse.ArgumentParser()
    ap.add_argument('--prop', required=True)
    ap.add_argument('--tier', default='quick')
    ap.add_argument('--seed', type=int, default=0)
    ap.add_argument('--out', default='out/replays')
    ap.add_argument('--replay', default=None)
    ap.add_argument('--n', type=int, default=0)
    a = ap.parse_args()
    prop = a.prop
    if a.replay:
        data = json.load(open(a.replay))
        scn = data['scenario']
        if scn.get('parallel'):
            tr1, _, e1 = L.run_schedule(scn, watchdog=20)
            tr2, _, e2 = L.run_schedule(scn, parallel_names=tuple(scn['parallel']), watchdog=60)
            l1 = sorted((t['path'], t['dt'], t['start']) for t in L.ledger(tr1) if t['start'] is not None)
            l2 = sorted((t['path'], t['dt'], t['start']) for t in L.ledger(tr2) if t['start'] is not None)
            same = l1 == l2 and (e1 is None) == (e2 is None)
            L.emit_result({'status': 'not-reproduced' if same else 'reproduced',
                           'failed': [] if same else ['serial and parallel runs hand over different timesteps']})
            return
        if 'lag' in scn:
            fails = check_lagging_shrink(scn['lag'])
            L.emit_result({'status': 'reproduced' if fails else 'not-reproduced', 'failed': fails[:5]})
            return
        if 'time_named' in scn:
            fails = check_time_named(scn['time_named'])
            L.emit_result({'status': 'reproduced' if fails else 'not-reproduced', 'failed': fails[:5]})
            return
        if 'echo' in scn:
            fails = check_echo(scn['echo'])
            L.emit_result({'status': 'reproduced' if fails else 'not-reproduced', 'failed': fails[:5]})
            return
        tr, eng, err = L.run_schedule(scn)
        fails = oracle(prop, tr, eng, scn, err)
        L.emit_result({'status': 'reproduced' if fails else 'not-reproduced', 'failed': fails[:5],
                       'in_known_region_F-C03-shrink': L.in_shrink_region(tr),
                       'in_known_region_F-C12-sametime': L.in_sametime_region(tr)})
        return
    n = a.n or {'quick': {'C01': 500, 'C02': 400, 'C03': 500, 'C12': 300, 'C04': 300},
                'thorough': {'C01': 12000, 'C02': 8000, 'C03': 10000, 'C12': 5000, 'C04': 5000}}[a.tier][prop]
    rng = random.Random(a.seed * 7919 + hash(prop) % 1000)
    rng = random.Random('%s-%s' % (a.seed, prop))
    evaluations = 0
    nontrivial = set()
    failures = []
    samples = []
    known = []
    edge = L.edge_schedules()
    if prop in ('C03', 'C02'):
        edge = edge + L.precision_edge_schedules()
    if a.tier == 'quick':
        pass                               # the family is small: run all of it in both tiers
    for i in range(n + len(edge)):
        precision = None
        if i < len(edge):
            scn = edge[i]
        else:
            if prop == 'C03' and i % 3 == 2:
                precision = 1
            scn = L.gen_schedule(rng, a.tier, precision=precision, allow_shrink=(i % 10 == 9))
        tr, eng, err = L.run_schedule(scn, watchdog=20)
        evaluations += 1
        fails = oracle(prop, tr, eng, scn, err)
        key = json.dumps(L.summarize(scn), sort_keys=True)
        if L.nontrivial_schedule(tr, scn):
            nontrivial.add(key)
        if len(samples) < 3:
            samples.append(L.summarize(scn))
        if fails and L.in_shrink_region(tr):
            known.append('F-C03-shrink')
            continue
        if fails and L.in_sametime_region(tr):
            known.append('F-C12-sametime')
            continue
        if fails:
            rp = L.write_replay(a.out, prop, 'sched%d' % i, scn, fails, extra={'driver': 'bounded.sched', 'prop': prop})
            failures.append({'id': '%s.bounded.schedule#%d: %s' % (prop, i, fails[0][:160]), 'replay': rp,
                             'failed': fails[:3]})
            if len(failures) >= 3:
                break
    if prop in ('C02', 'C01') and not failures:
        # the timestep a process REQUESTS is the one it is handed, also when the process runs in its own OS process:
        # adaptive-timestep scenarios run serially and with one process parallel must hand over the same timesteps
        prng = random.Random('%s-parallel' % a.seed)
        done = 0
        tries = 0
        while done < (4 if a.tier == 'quick' else 40) and tries < 2000:
            tries += 1
            scn = L.gen_schedule(prng, a.tier)
            scripted = [p['name'] for p in scn['procs'] if (p.get('dts') and len(set(p['dts'])) > 1) or
                        (prop == 'C01' and p['cond'] not in ('always', 'flag'))]
            if not scripted or scn.get('flipper'):
                continue
            done += 1
            evaluations += 1
            tr1, eng1, err1 = L.run_schedule(scn, watchdog=20)
            led1 = [(t['path'], t['dt'], t['start']) for t in L.ledger(tr1) if t['start'] is not None]
            tr2, eng2, err2 = L.run_schedule(scn, parallel_names=(scripted[0],), watchdog=60)
            led2 = [(t['path'], t['dt'], t['start']) for t in L.ledger(tr2) if t['start'] is not None]
            if L.in_shrink_region(tr1) or L.in_sametime_region(tr1):
                continue
            fails = []
            if (err1 is None) != (err2 is None):
                fails.append('serial run %s, run with %s parallel %s' % (err1 and err1[1], scripted[0], err2 and err2[1]))
            elif sorted(led1) != sorted(led2):
                d1 = [x for x in led1 if x not in led2][:3]
                d2 = [x for x in led2 if x not in led1][:3]
                fails.append('with %s in its own OS process it is handed other timesteps than it requests: (path, timestep, start) '
                             'serial %s, parallel %s' % (scripted[0], d1, d2))
            if fails:
                scn2 = dict(scn)
                scn2['parallel'] = [scripted[0]]
                rp = L.write_replay(a.out, prop, 'par%d' % done, scn2, fails, extra={'driver': 'bounded.sched', 'prop': prop})
                failures.append({'id': '%s.bounded.parallel#%d: %s' % (prop, done, fails[0][:200]), 'replay': rp, 'failed': fails[:3]})
                break
    if prop == 'C02' and len(failures) < 3:
        for ci, case in enumerate(LAG_CASES):
            evaluations += 1
            nontrivial.add('lag-%d' % ci)
            fails = check_lagging_shrink(case)
            if fails:
                rp = L.write_replay(a.out, prop, 'lag%d' % ci, {'lag': case}, fails, extra={'driver': 'bounded.sched', 'prop': prop})
                failures.append({'id': '%s.bounded.lagging-shrink#%d: %s' % (prop, ci, fails[0][:220]), 'replay': rp, 'failed': fails[:3]})
    if prop in ('C03', 'C12') and len(failures) < 3:
        for ci, case in enumerate(TIME_NAMED_CASES):
            evaluations += 1
            nontrivial.add('time-named-%d' % ci)
            fails = check_time_named(case)
            if fails:
                rp = L.write_replay(a.out, prop, 'timenamed%d' % ci, {'time_named': case}, fails, extra={'driver': 'bounded.sched', 'prop': prop})
                failures.append({'id': '%s.bounded.time-named#%d: %s' % (prop, ci, fails[0][:220]), 'replay': rp, 'failed': fails[:3]})
                if len(failures) >= 3:
                    break
    if prop in ('C01', 'C04') and len(failures) < 3:
        for ci, case in enumerate(ECHO_CASES):
            evaluations += 1
            nontrivial.add('echo-%d' % ci)
            fails = check_echo(case)
            if fails:
                rp = L.write_replay(a.out, prop, 'echo%d' % ci, {'echo': case}, fails, extra={'driver': 'bounded.sched', 'prop': prop})
                failures.append({'id': '%s.bounded.echo#%d: %s' % (prop, ci, fails[0][:220]), 'replay': rp, 'failed': fails[:3]})
                if len(failures) >= 3:
                    break
    L.emit_result({'status': 'violated' if failures else 'ok', 'evaluations': evaluations,
                   'distinct_nontrivial': len(nontrivial), 'failures': failures, 'samples': samples,
                   'known_findings_hit': {k: known.count(k) for k in set(known)},
                   'rule': 'seeded random schedules; non-trivial = >= 2 distinct timesteps or a quiet/deferred '
                           'invocation actually occurred (measured on the trace); distinct by scenario description',
                   'bound': __doc__.strip().split('Bound:')[1].strip()})


if __name__ == '__main__':
    main()
