"""Bounded driver for C18 (timeseries and query views lose nothing) on the real emitter functions.

LABEL: bounded stand-in.  Bound: histories of 1..6 rows, nesting depth <= 3, keys from {a,b,c,d}, value pool
incl. 0, False, '', [], None-free, floats, strings, lists and quantities; (i) stable-shape histories for the
timeseries laws, (ii) changing-shape histories (variables appear / disappear) for queries; query path sets of
1..3 paths incl. paths to branches and missing paths.
"""
import argparse, copy, json, random
from bounded import lib as L
from vivarium.core.emitter import (RAMEmitter, timeseries_from_data, path_timeseries_from_data,
                                   path_timeseries_from_embedded_timeseries)
from vivarium.library.units import units

KEYS = ['a', 'b', 'c', 'd']
VALS = [0, False, '', [], 1, 2.5, 'x', [1, 2], -3, True, [0]]


def gen_shape(rng, depth, top=True):
    if depth == 0 or rng.random() < 0.4:
        return None
    out = {}
    # below the top level a variable may itself be called 'time' (only the top-level key is the time vector)
    for k in KEYS + ([] if top else ['time']):
        if rng.random() < (0.5 if k != 'time' else 0.25):
            out[k] = gen_shape(rng, depth - 1, False)
    return out or None


def fill(shape, rng):
    if shape is None:
        return copy.deepcopy(rng.choice(VALS))
    return {k: fill(v, rng) for k, v in shape.items()}


def leaves(d, prefix=()):
    if isinstance(d, dict):
        out = []
        for k, v in d.items():
            out.extend(leaves(v, prefix + (k,)))
        return out
    return [(prefix, d)]


def get(d, path):
    for p in path:
        if not isinstance(d, dict) or p not in d:
            return KeyError
        d = d[p]
    return d


def check_timeseries(rows, order=None, keyfn=float):
    """rows: list of (time, data) with identical shape.  `order`: insertion order of the raw data (raw data merged from
    several emitters or reloaded from JSON is not in ascending key order); `keyfn`: type of the time keys.
    The law is ALIGNMENT: whatever the order, cell i of every series is the value emitted at time[i]."""
    fails = []
    idx = list(range(len(rows))) if order is None else order
    data = {keyfn(rows[i][0]): copy.deepcopy(rows[i][1]) for i in idx}
    raw = copy.deepcopy(data)
    ts = timeseries_from_data(copy.deepcopy(data))
    times = ts.get('time')
    if sorted(map(str, times or [])) != sorted(map(str, raw)):
        fails.append('time vector %s is not the set of emitted times %s' % (times, list(raw)))
        return fails
    for path, _ in leaves(rows[0][1]):
        series = get(ts, path)
        want = [get(raw[t], path) for t in times]
        if series is KeyError or series != want:
            fails.append('embedded timeseries of %s is %s, but the values emitted at the times %s are %s'
                         % (path, series, times, want))
    pts = path_timeseries_from_data(copy.deepcopy(data))
    ptimes = pts.get('time')
    for path, _ in leaves(rows[0][1]):
        want = [get(raw[t], path) for t in (ptimes or [])]
        if pts.get(path) != want:
            fails.append('path timeseries of %s is %s, but the values emitted at the times %s are %s'
                         % (path, pts.get(path), ptimes, want))
    extra = set(pts) - {p for p, _ in leaves(rows[0][1])} - {'time'}
    if extra:
        fails.append('path timeseries has extra entries %s' % sorted(extra))
    return fails[:3]


def check_query(rows, query):
    fails = []
    em = RAMEmitter({})
    for t, r in rows:
        d = copy.deepcopy(r)
        d['time'] = t
        em.emit({'table': 'history', 'data': d})
    raw = copy.deepcopy(em.get_data())
    got = em.get_data([tuple(q) for q in query])
    if list(got.keys()) != [t for t, _ in rows]:
        fails.append('query returned times %s for emitted times %s' % (list(got.keys()), [t for t, _ in rows]))
    for t, r in rows:
        want = {}
        for q in query:
            v = get(raw[t], q)
            if v is not KeyError and v is not None:
                cur = want
                for p in q[:-1]:
                    cur = cur.setdefault(p, {})
                if len(q) == 0:
                    continue
                if isinstance(v, dict) and isinstance(cur.get(q[-1]), dict):
                    cur[q[-1]].update(copy.deepcopy(v))
                else:
                    cur[q[-1]] = copy.deepcopy(v)
        if got.get(t) != want:
            fails.append('query %s at t=%s returned %s, emitted data gives %s' % (query, t, got.get(t), want))
    if em.get_data() != raw:
        fails.append('query modified the saved data')
    return fails[:3]


QVALS = [1.5 * units.fg, [0, 1.5 * units.fg], [2.0 * units.fg, 3], [1, [2.5 * units.fg]], [True, 'x', 0.5 * units.fg], 0, [], '']


def qeq(a, b):
    if isinstance(a, (list, tuple)) and isinstance(b, (list, tuple)):
        return len(a) == len(b) and all(qeq(x, y) for x, y in zip(a, b))
    if isinstance(a, dict) and isinstance(b, dict):
        return set(a) == set(b) and all(qeq(a[k], b[k]) for k in a)
    if hasattr(a, 'units') or hasattr(b, 'units'):
        return hasattr(a, 'units') and hasattr(b, 'units') and a.units == b.units and a.magnitude == b.magnitude
    return type(a) == type(b) and a == b


def strip_units(v):
    if isinstance(v, (list, tuple)):
        return [strip_units(x) for x in v]
    if isinstance(v, dict):
        return {k: strip_units(x) for k, x in v.items()}
    return v.magnitude if hasattr(v, 'magnitude') else v


def check_emitter_views(sd):
    """rows with unit-bearing values (also inside lists) emitted into a RAM emitter: the deserialized view reproduces every
    emitted value, with and without a query; the unitless view is the same with magnitudes"""
    rng = random.Random(sd)
    fails = []
    names = rng.sample(KEYS, rng.choice([1, 2, 3]))
    rows = []
    for i in range(rng.choice([1, 2, 3])):
        rows.append((float(i), {'cell': {n: copy.deepcopy(rng.choice(QVALS + VALS)) for n in names}}))
    em = RAMEmitter({})
    for t, r in rows:
        d = copy.deepcopy(r)
        d['time'] = t
        em.emit({'table': 'history', 'data': d})
    try:
        des = em.get_data_deserialized()
        desq = em.get_data_deserialized([('cell', names[0])])
        unitless = em.get_data_unitless()
    except Exception as e:
        return ['deserialized view raised %s: %s (rows %r)' % (type(e).__name__, str(e)[:150], rows)]
    for t, r in rows:
        for n in names:
            want = r['cell'][n]
            got = des.get(t, {}).get('cell', {}).get(n, KeyError)
            if got is KeyError or not qeq(got, want):
                fails.append('get_data_deserialized()[%s][cell][%s] is %r, emitted %r' % (t, n, got, want))
            gotu = unitless.get(t, {}).get('cell', {}).get(n, KeyError)
            if gotu is KeyError or not qeq(gotu, strip_units(want)):
                fails.append('get_data_unitless()[%s][cell][%s] is %r, emitted %r' % (t, n, gotu, want))
        gq = desq.get(t, {}).get('cell', {}).get(names[0], KeyError)
        if gq is KeyError or not qeq(gq, r['cell'][names[0]]):
            fails.append('get_data_deserialized(query)[%s][cell][%s] is %r, emitted %r' % (t, names[0], gq, r['cell'][names[0]]))
    # a second writer of the same table (shared table / embed_path) adds variables at the times already recorded, after the
    # views were read: every view taken afterwards lists them
    if not fails:
        extra = {t: copy.deepcopy(rng.choice(QVALS + VALS)) for t, _ in rows}
        for t in extra:
            em.emit({'table': 'history', 'data': {'time': t, 'other': {'w': copy.deepcopy(extra[t])}}})
        try:
            views = {'get_data_deserialized()': em.get_data_deserialized(), 'get_data_unitless()': em.get_data_unitless(),
                     'get_data_deserialized(query)': em.get_data_deserialized([('cell', names[0])])}
            ts = em.get_timeseries()
        except Exception as e:
            return ['views after a second writer raised %s: %s' % (type(e).__name__, str(e)[:150])]
        for t in extra:
            for nm in ('get_data_deserialized()', 'get_data_unitless()'):
                got = views[nm].get(t, {}).get('other', {}).get('w', KeyError)
                want = extra[t] if nm.endswith('deserialized()') else strip_units(extra[t])
                if got is KeyError or not qeq(got, want):
                    fails.append('%s[%s][other][w] is %r after it was emitted as %r by a second writer (view read before)'
                                 % (nm, t, got, extra[t]))
            if 'other' in views['get_data_deserialized(query)'].get(t, {}):
                fails.append('queried view lists a variable that was not queried at %s' % t)
        if 'other' not in ts:
            fails.append('get_timeseries() lacks the variables emitted by a second writer after the first read: keys %s' % list(ts))
    return fails[:3]


UNIT_POOL = ['fg', 'mM', 'degree', 'radian', 'percent', 'mmol/mol', 'count', 'dimensionless', 'fg/fL', 'um/um']


def check_unit_series(sd):
    """a stable history whose variables are scalar quantities (also dimensionless ones that still carry a unit: degree,
    percent, mmol/mol): every emitted cell can be read back -- magnitude AND unit -- from the embedded and the path
    timeseries, where a unit-bearing variable `v` is the series keyed (v, unit)"""
    from vivarium.library.units import Quantity
    rng = random.Random(sd)
    names = rng.sample(['v1', 'v2', 'v3', 'v4'], rng.choice([1, 2, 3]))
    unit_of = {n: rng.choice(UNIT_POOL + [None]) for n in names}
    nest = rng.random() < 0.5
    try:
        qs = {n: (units(u) if u else None) for n, u in unit_of.items()}
    except Exception:       # a unit the registry does not define: nothing to check
        return []
    em = RAMEmitter({})
    big = random.Random(str(sd) + '-big')
    emitted = {}
    for i in range(rng.choice([1, 2, 3, 4])):
        vals = {n: (rng.choice([0, 1.5, 2, 90, 25.0]) * qs[n] if qs[n] is not None else rng.choice([0, 1.5, 'x'])) for n in names}
        if big.random() < 0.3 and qs[names[0]] is not None:
            # molecule counts: exact integers beyond 2**53 stay exact (and stay integers) in every view
            vals[names[0]] = big.choice([2 ** 53 + 1, 2 ** 53 + 3, 10 ** 18 + 7, 7]) * qs[names[0]]
        cell = {'inner': vals} if nest else vals
        emitted[float(i)] = {'cell': copy.deepcopy(cell)}
        em.emit({'table': 'history', 'data': {'time': float(i), 'cell': cell}})
    fails = []
    raw = em.get_data_deserialized()
    for t, row in emitted.items():
        for path, v in leaves(row):
            got = get(raw.get(t, {}), path)
            if isinstance(v, Quantity) and (not isinstance(got, Quantity) or got.units != v.units or got.magnitude != v.magnitude):
                fails.append('get_data_deserialized()[%s]%s is %r, emitted %r' % (t, path, got, v))
    if fails:
        return fails[:3]
    times = list(raw)
    for label, emb, pth in (('emitter', em.get_timeseries(), em.get_path_timeseries()),
                            ('from_data', timeseries_from_data(copy.deepcopy(raw)), path_timeseries_from_data(copy.deepcopy(raw)))):
        for idx, t in enumerate(times):
            for path, v in leaves(raw[t]):
                node = get(emb, path[:-1])
                if isinstance(v, Quantity):
                    ek, pk = (path[-1], str(v.units)), path[:-1] + ((path[-1], str(v.units)),)
                else:
                    ek, pk = path[-1], path
                ecell = node[ek][idx] if isinstance(node, dict) and ek in node and len(node[ek]) > idx else KeyError
                pcell = pth[pk][idx] if pk in pth and len(pth[pk]) > idx else KeyError
                want = v.magnitude if isinstance(v, Quantity) else v
                if ecell is KeyError or ecell != want or type(ecell) != type(want):
                    fails.append('%s embedded timeseries: no cell %r[%d] == %r for %s emitted as %r at t=%s (keys there: %s)'
                                 % (label, ek, idx, want, path, v, t, list(node) if isinstance(node, dict) else node))
                if pcell is KeyError or pcell != want or type(pcell) != type(want):
                    fails.append('%s path timeseries: no cell %r[%d] == %r for %s emitted as %r at t=%s'
                                 % (label, pk, idx, want, path, v, t))
    return fails[:3]


def main():
    ap = argparse.ArgumentParser()
    ap.add_argument('--tier', default='quick'); ap.add_argument('--seed', type=int, default=0)
    ap.add_argument('--out', default='out/replays'); ap.add_argument('--replay', default=None)
    a = ap.parse_args()

    def scenario(sd):
        rng = random.Random(sd)
        stable = rng.random() < 0.5
        n = rng.choice([1, 2, 3, 4, 6])
        master = gen_shape(rng, 3) or {'a': None}

        def prune(sh):
            # a sub-shape: variables/branches may be absent at some times, but a key never changes
            # between branch and leaf (a hierarchy node is one or the other)
            if sh is None:
                return None
            out = {k: prune(v) for k, v in sh.items() if rng.random() < 0.7}
            out = {k: v for k, v in out.items() if v is None or v}
            return out
        rows = []
        for i in range(n):
            shape = master if stable else (prune(master) or {})
            rows.append((float(i), fill(shape, rng) if shape else {}))
        # strictly increasing times
        rows = [(float(i), r) for i, (_, r) in enumerate(rows)]
        allpaths = sorted({p for _, r in rows for p, _ in leaves(r)} | {p[:-1] for _, r in rows for p, _ in leaves(r) if len(p) > 1})
        query = [list(rng.choice(allpaths)) for _ in range(rng.choice([1, 2, 3]))] if allpaths else [['a']]
        if rng.random() < 0.3:
            query.append(['zz', 'missing'])
        return stable, rows, query

    def run(sd):
        stable, rows, query = scenario(sd)
        fails = []
        if stable:
            fails += check_timeseries(rows)
            rng2 = random.Random(sd + '-order')
            order = list(range(len(rows)))
            rng2.shuffle(order)
            # merged histories (several emitters on different grids) and histories reloaded from JSON (string keys)
            fails += check_timeseries(rows, order=order)
            fails += check_timeseries(rows, order=None, keyfn=lambda t: str(float(t) * 5))
        # nested queries that overlap (a path and its prefix) have no single expected answer: keep disjoint
        qs = [q for q in query if not any(q != o and q[:len(o)] == o for o in query)]
        fails += check_query(rows, qs)
        return fails, stable, rows, qs

    if a.replay:
        d = json.load(open(a.replay))['scenario']
        if 'rng_u' in d:
            L.emit_result({'status': 'reproduced' if check_unit_series(d['rng_u']) else 'not-reproduced',
                           'failed': check_unit_series(d['rng_u'])})
            return
        if 'rng_q' in d:
            L.emit_result({'status': 'reproduced' if check_emitter_views(d['rng_q']) else 'not-reproduced',
                           'failed': check_emitter_views(d['rng_q'])})
            return
        fails, _, _, _ = run(d['rng'])
        L.emit_result({'status': 'reproduced' if fails else 'not-reproduced', 'failed': fails[:3]})
        return
    n = 1500 if a.tier == 'quick' else 50000
    evaluations = 0; distinct = set(); failures = []; samples = []
    for i in range(n):
        sd = 'c18-%d-%d' % (a.seed, i)
        fails, stable, rows, qs = run(sd)
        evaluations += 1
        falsy = any(v in (0, False, '', []) and not isinstance(v, dict) for _, r in rows for _, v in leaves(r))
        if len(rows) >= 2 and falsy:
            distinct.add(repr((rows, qs)))
        if len(samples) < 2:
            samples.append({'rows': rows, 'query': qs})
        if fails:
            rp = L.write_replay(a.out, 'C18', 'hist%d' % i, {'rng': sd, 'rows': rows, 'query': qs}, fails, extra={'driver': 'bounded.c18'})
            failures.append({'id': 'C18.bounded.views#%d: %s' % (i, fails[0][:200]), 'replay': rp})
            if len(failures) >= 3:
                break
    for i in range(300 if a.tier == 'quick' else 5000):
        if len(failures) >= 3:
            break
        sd = 'c18q-%d-%d' % (a.seed, i)
        evaluations += 1
        fails = check_emitter_views(sd)
        distinct.add(sd)
        if fails:
            rp = L.write_replay(a.out, 'C18', 'qviews%d' % i, {'rng_q': sd}, fails, extra={'driver': 'bounded.c18'})
            failures.append({'id': 'C18.bounded.emitter-views#%d: %s' % (i, fails[0][:200]), 'replay': rp})
    for i in range(300 if a.tier == 'quick' else 5000):
        if len(failures) >= 3:
            break
        sd = 'c18u-%d-%d' % (a.seed, i)
        evaluations += 1
        fails = check_unit_series(sd)
        distinct.add(sd)
        if fails:
            rp = L.write_replay(a.out, 'C18', 'useries%d' % i, {'rng_u': sd}, fails, extra={'driver': 'bounded.c18'})
            failures.append({'id': 'C18.bounded.unit-series#%d: %s' % (i, fails[0][:240]), 'replay': rp})
    L.emit_result({'status': 'violated' if failures else 'ok', 'evaluations': evaluations,
                   'distinct_nontrivial': len(distinct), 'failures': failures, 'samples': samples,
                   'rule': 'seeded random histories; non-trivial = >= 2 rows with at least one falsy value; distinct by content'})


if __name__ == '__main__':
    main()
