"""Bounded driver for the wiring properties C06 (read/write symmetry), C07 (views have exactly the declared
shape) and C15 (declared variables built with initial / default values) on the real Store and Engine.

LABEL: bounded stand-in.  The oracle is `addr`: an independent reading of the documentation of
topologies (plain tuple: normalise(here + path + rest); '_path' dictionary: re-base, then remap the named
variables; glob: one entry per current child).  It is shared by the read side and the write side.
Bound: one probe process at depth 0..2 with 1..3 ports drawn from the shape families
{plain, up ('..'), _path split/rename, two ports on one store, leaf port, glob port, nested port}, hierarchy
depth <= 4, partial initial states, stores holding extra (undeclared) variables.
"""
import argparse
import copy
import json
import random

from bounded import lib as L
from vivarium.core.engine import Engine
from vivarium.core.process import Process
from vivarium.core.store import Store, generate_state
from vivarium.library.topology import normalize_path


def norm(p):
    out = []
    for s in p:
        if s == '..' and out:
            out.pop()
        else:
            out.append(s)
    return tuple(out)


def addr(topology, here, q):
    """Hierarchy path of port variable q=(port, v1, .., vk) of a process living in compartment `here`."""
    port = q[0]
    t = topology.get(port, (port,))
    return _resolve(t, tuple(here), tuple(q[1:]))


def _resolve(t, base, rest):
    if isinstance(t, (tuple, list)):
        return norm(tuple(base) + tuple(t) + tuple(rest))
    base2 = norm(tuple(base) + tuple(t['_path'])) if '_path' in t else tuple(base)
    if not rest:
        return base2
    head = rest[0]
    if head in t:
        return _resolve(t[head], base2, rest[1:])
    return norm(base2 + tuple(rest))


class Probe(Process):
    """Process with a generated ports schema; logs the states it is shown; returns a scripted update."""
    defaults = {'timestep': 1.0, 'schema': {}, 'updates': [], 'initial': None}

    def __init__(self, parameters=None):
        super().__init__(parameters)
        self.seen = []
        self.k = 0

    def ports_schema(self):
        return copy.deepcopy(self.parameters['schema'])

    def initial_state(self, config=None):
        if self.parameters.get('initial') is not None:
            return copy.deepcopy(self.parameters['initial'])
        return super().initial_state(config)

    def next_update(self, timestep, states):
        self.seen.append(copy.deepcopy(states))
        ups = self.parameters['updates']
        u = copy.deepcopy(ups[self.k]) if self.k < len(ups) else {}
        self.k += 1
        return u


COUNT = 100000


def verif_count(current, update):
    # every application is visible, also of a zero: value += update + COUNT
    return current + update + COUNT


from vivarium.core.registry import updater_registry
if updater_registry.access('verif_count') is None:
    updater_registry.register('verif_count', verif_count)


def with_updater(schema, name):
    if isinstance(schema, dict):
        if '_default' in schema:
            schema['_updater'] = name
        else:
            for v in schema.values():
                with_updater(v, name)
    return schema


def leaf(default, emit=True, updater='accumulate'):
    return {'_default': default, '_updater': updater, '_emit': emit}


def gen_case(rng, tier):
    """Returns dict(here, schema, topology, variables=[{q, node, default}], kids=[node paths of glob children],
    second=optional second process)."""
    depth = rng.choice([0, 1, 2])
    here = tuple(['cellA', 'inner'][:depth])
    schema, topo, variables, kids_nodes = {}, {}, [], []
    second = None
    extra_procs = []
    counter = [10]

    def nxt():
        counter[0] += 1
        return counter[0]

    def var(q, default, node=None, must_init=False):
        variables.append({'q': list(q), 'default': default, 'must_init': must_init,
                          'node': list(node if node is not None else addr(topo, here, tuple(q)))})
    families = ['plain', 'plain2', 'unwired', 'path', 'pathjoin', 'twoports', 'leafport', 'nested', 'glob', 'globtuple', 'globpath', 'nestedglob']
    if depth > 0:
        families += ['up', 'up']
    chosen = [rng.choice(families) for _ in range(rng.choice([1, 2, 3]))]
    for i, fam in enumerate(chosen):
        p = 'p%d' % i
        if fam == 'plain':
            schema[p] = {'v': leaf(nxt()), 'w': leaf(nxt())}
            topo[p] = ('s%d' % i,)
            var((p, 'v'), schema[p]['v']['_default'])
            var((p, 'w'), schema[p]['w']['_default'])
        elif fam == 'unwired':
            # a port the topology does not mention at all: wired by default to a store of the same name
            schema[p] = {'v': leaf(nxt())}
            var((p, 'v'), schema[p]['v']['_default'])
        elif fam == 'plain2':
            schema[p] = {'v': leaf(nxt())}
            topo[p] = ('deep%d' % i, 'er')
            var((p, 'v'), schema[p]['v']['_default'])
        elif fam == 'up':
            schema[p] = {'v': leaf(nxt())}
            topo[p] = ('..',) * rng.choice(list(range(1, depth + 1))) + ('shared%d' % i,)
            var((p, 'v'), schema[p]['v']['_default'])
        elif fam == 'path':
            schema[p] = {'v': leaf(nxt()), 'w': leaf(nxt()), 'x': leaf(nxt())}
            topo[p] = {'_path': ('base%d' % i,), 'w': ('..', 'elsewhere%d' % i, 'w_renamed'), 'x': ('sub', 'x')}
            for k in ('v', 'w', 'x'):
                var((p, k), schema[p][k]['_default'])
        elif fam == 'pathjoin':
            # inside one '_path' dictionary two variables are wired to ONE node (and a third elsewhere)
            d = nxt()
            schema[p] = {'v': leaf(d), 'w': leaf(d), 'x': leaf(nxt())}
            topo[p] = {'_path': ('pj%d' % i,), 'v': ('shared', 'x'), 'w': ('shared', 'x')}
            for k in ('v', 'w', 'x'):
                var((p, k), schema[p][k]['_default'])
        elif fam == 'twoports':
            q = p + 'b'
            same = rng.random() < 0.5
            schema[p] = {'v': leaf(nxt())}
            d = schema[p]['v']['_default']
            other = 'v' if same else 'u'
            schema[q] = {other: leaf(d if same else nxt())}
            topo[p] = ('joint%d' % i,)
            topo[q] = ('joint%d' % i,)
            var((p, 'v'), d)
            var((q, other), schema[q][other]['_default'])
        elif fam == 'leafport':
            q = p + 'b'
            d = nxt()
            schema[p] = leaf(d)
            schema[q] = leaf(d)
            topo[p] = ('lp%d' % i, 'x')
            topo[q] = ('lp%d' % i, 'x') if rng.random() < 0.6 else ('lp%d' % i, 'y')
            var((p,), d)
            var((q,), d)
        elif fam == 'nested':
            schema[p] = {'sub': {'v': leaf(nxt())}, 'w': leaf(nxt())}
            topo[p] = ('n%d' % i,)
            var((p, 'sub', 'v'), schema[p]['sub']['v']['_default'])
            var((p, 'w'), schema[p]['w']['_default'])
        elif fam == 'glob':
            schema[p] = {'*': {'m': leaf(nxt()), 'g': leaf(nxt())}}
            topo[p] = ('agents%d' % i,)
            base = norm(here + ('agents%d' % i,))
            gkids = rng.sample(['a1', 'a2', 'a3'], rng.choice([1, 2, 3]))
            for kid in gkids:
                kids_nodes.append(list(base + (kid,)))
                var((p, kid, 'm'), schema[p]['*']['m']['_default'], base + (kid, 'm'))
                var((p, kid, 'g'), schema[p]['*']['g']['_default'], base + (kid, 'g'))
            if second is None and rng.random() < 0.5:
                # a second process declares a glob port on the SAME store with another sub-variable
                d2 = nxt()
                second = {'schema': {'px': {'*': {'h': leaf(d2)}}}, 'topology': {'px': ['agents%d' % i]},
                          'node': list(base + (gkids[0], 'h')), 'default': d2}
        elif fam == 'globtuple':
            # inside a '_path' dictionary the glob key carries its OWN tuple path: the children live elsewhere
            schema[p] = {'*': {'m': leaf(nxt()), 'g': leaf(nxt())}}
            topo[p] = {'_path': ('local%d' % i,), '*': ('..', 'shared%d' % i)}
            base = norm(here + ('shared%d' % i,))
            for kid in rng.sample(['a1', 'a2', 'a3'], rng.choice([1, 2, 3])):
                kids_nodes.append(list(base + (kid,)))
                var((p, kid, 'm'), schema[p]['*']['m']['_default'], base + (kid, 'm'))
                var((p, kid, 'g'), schema[p]['*']['g']['_default'], base + (kid, 'g'))
        elif fam == 'globpath':
            # glob whose '*' sub-topology dictionary carries its own _path and remaps a variable
            schema[p] = {'*': {'m': leaf(nxt()), 'g': leaf(nxt())}}
            up = ('..',) if depth > 0 and rng.random() < 0.5 else ()
            topo[p] = {'*': {'_path': up + ('colony%d' % i, 'cells'), 'm': ('boundary', 'm')}}
            base = norm(here + up + ('colony%d' % i, 'cells'))
            for kid in rng.sample(['a1', 'a2', 'a3'], rng.choice([1, 2])):
                # the children of a remapping glob own their structure: a process inside each child declares it
                dm, dg = schema[p]['*']['m']['_default'], schema[p]['*']['g']['_default']
                extra_procs.append({'at': list(base + (kid,)), 'name': 'owner',
                                    'schema': {'boundary': {'m': leaf(dm)}, 'own': {'g': leaf(dg)}},
                                    'topology': {'boundary': ['boundary'], 'own': []}})
                var((p, kid, 'm'), dm, base + (kid, 'boundary', 'm'))
                var((p, kid, 'g'), dg, base + (kid, 'g'))
        elif fam == 'nestedglob' and second is None:
            schema[p] = {'*': {'parts': {'*': {'mass': leaf(nxt())}}, 'g': leaf(nxt())}}
            topo[p] = ('ng%d' % i,)
            base = norm(here + ('ng%d' % i,))
            kids_nodes.append(list(base + ('a1',)))
            var((p, 'a1', 'g'), schema[p]['*']['g']['_default'], base + ('a1', 'g'))
            for inner in ('q1', 'q2'):
                kids_nodes.append(list(base + ('a1', 'parts', inner)))
                var((p, 'a1', 'parts', inner, 'mass'), schema[p]['*']['parts']['*']['mass']['_default'],
                    base + ('a1', 'parts', inner, 'mass'))
            d2 = nxt()
            second = {'schema': {'px': {'x': leaf(d2)}}, 'topology': {'px': ['ng%d' % i, 'a1', 'parts', 'q1']},
                      'node': list(base + ('a1', 'parts', 'q1', 'x')), 'default': d2}
    if not variables:
        schema['p9'] = {'v': leaf(nxt())}
        topo['p9'] = ('s9',)
        var(('p9', 'v'), schema['p9']['v']['_default'])
    return {'here': list(here), 'schema': schema, 'topology': topo, 'variables': variables, 'kids': kids_nodes,
            'second': second, 'extra_procs': extra_procs, 'seed': rng.randrange(10 ** 9), 'count_mode': rng.random() < 0.4}


def tset(d, path, v):
    for p in path[:-1]:
        d = d.setdefault(p, {})
    d[path[-1]] = v


def tget(d, path):
    for p in path:
        if not isinstance(d, dict) or p not in d:
            return KeyError
        d = d[p]
    return d


def build(case, with_initial=True):
    rng = random.Random(case['seed'])
    here = tuple(case['here'])
    topo = _tuplify(case['topology'])
    initial = {}
    expected = {}          # node path -> expected value after construction
    for kid in case['kids']:
        if tget(initial, tuple(kid)) is KeyError:
            tset(initial, tuple(kid), {})
    for v in case['variables']:
        node = tuple(v['node'])
        if node in expected:
            continue
        if v.get('must_init') or (with_initial and rng.random() < 0.5):
            val = 1000 + len(expected)
            tset(initial, node, val)
            expected[node] = val
        else:
            expected[node] = v['default']
    if case.get('second'):
        expected[tuple(case['second']['node'])] = case['second']['default']
    upd, incs = {}, {}
    k = 1
    for v in case['variables']:
        q = tuple(v['q'])
        cur = upd
        for s in q[:-1]:
            cur = cur.setdefault(s, {})
        inc = 2 ** k if k < 40 else k
        if case.get('count_mode') and k % 2 == 1:
            inc = 0              # a falsy update still counts as an update (every application adds COUNT)
        k += 1
        cur[q[-1]] = inc
        incs[q] = (inc, tuple(v['node']))
    schema = case['schema']
    if case.get('count_mode'):
        schema = with_updater(copy.deepcopy(schema), 'verif_count')
        if case.get('second'):
            case = dict(case, second=dict(case['second'], schema=with_updater(copy.deepcopy(case['second']['schema']), 'verif_count')))
        case = dict(case, extra_procs=[dict(ep, schema=with_updater(copy.deepcopy(ep['schema']), 'verif_count'))
                                       for ep in case.get('extra_procs', [])])
    probe = Probe({'schema': schema, 'updates': [upd]})
    processes, topology = {}, {}
    tset(processes, here + ('probe',), probe)
    tset(topology, here + ('probe',), topo)
    if case.get('second'):
        p2 = Probe({'schema': case['second']['schema'], 'updates': []})
        tset(processes, here + ('probe2',), p2)
        tset(topology, here + ('probe2',), _tuplify(case['second']['topology']))
    for ep in case.get('extra_procs', []):
        tset(processes, tuple(ep['at']) + (ep['name'],), Probe({'schema': ep['schema'], 'updates': []}))
        tset(topology, tuple(ep['at']) + (ep['name'],), _tuplify(ep['topology']))
    return probe, processes, topology, initial, expected, incs


def _tuplify(t):
    if isinstance(t, dict):
        return {k: _tuplify(v) for k, v in t.items()}
    if isinstance(t, list):
        return tuple(t)
    return t


def flat(d, prefix=()):
    out = {}
    if isinstance(d, dict):
        for k, v in d.items():
            out.update(flat(v, prefix + (k,)))
        if not d:
            out[prefix] = {}
    else:
        out[prefix] = d
    return out


def is_process_entry(k):
    return bool(k) and k[-1] in ('probe', 'probe2', 'owner')


def declaration_conflicts():
    """declarations by several processes for ONE variable: compatible ones merge silently, incompatible units / values
    raise at construction (fixed family; the generated cases above only ever declare compatible things)"""
    from vivarium.library.units import units
    fails = []
    cases = [('same units', units.mg, units.mg, False), ('mg vs g', units.mg, units.g, True), ('g vs mg', units.g, units.mg, True),
             ('mg vs um', units.mg, units.um, True), ('mm vs um', units.mm, units.um, True)]
    for nested in (False, True):
        for name, u1, u2, must_raise in cases:
            def mk(u):
                leaf_ = {'_default': 1.0 * u, '_units': u, '_updater': 'accumulate'}
                return {'port': {'sub': {'x': leaf_}} if nested else {'x': leaf_}}
            procs = {'a': Probe({'schema': mk(u1), 'updates': []}), 'b': Probe({'schema': mk(u2), 'updates': []})}
            topo = {'a': {'port': ('store',)}, 'b': {'port': ('store',)}}
            try:
                eng = Engine(processes=procs, topology=topo, display_info=False, emitter='null')
                raised = None
            except Exception as e:       # noqa
                raised = e
            if must_raise and raised is None:
                fails.append('two processes declare %s for one variable (nested=%s): no error at construction, the node has units %s'
                             % (name, nested, eng.state.get_path(('store',) + (('sub',) if nested else ()) + ('x',)).units))
            if not must_raise and raised is not None:
                fails.append('two processes declare %s for one variable: construction raised %s' % (name, raised))
    return fails[:3]


def rebuild_with_override(case, probe, processes, topology):
    """the SAME process instances are built into a second store after a schema override was merged into the process:
    the second store must be built from what the process declares NOW"""
    cands = [v for v in case['variables'] if '*' not in v['q'] and len(v['q']) >= 2 and
             not any(tuple(w['node']) == tuple(v['node']) and w is not v for w in case['variables'])]
    if not cands or case.get('count_mode'):
        return []
    v = cands[0]
    # only plain declared leaves (not children of glob ports, whose keys are not schema keys)
    sch = case['schema']
    for s_ in v['q']:
        if not isinstance(sch, dict) or s_ not in sch:
            return []
        sch = sch[s_]
    if not (isinstance(sch, dict) and '_default' in sch):
        return []
    ov = {}
    tset(ov, tuple(v['q']), {'_default': 424242})
    try:
        probe.merge_overrides(ov)
        st2 = generate_state(processes, topology, {})
        got = tget(st2.get_value(), tuple(v['node']))
    except Exception as e:
        return ['rebuilding after a schema override raised %s: %s' % (type(e).__name__, str(e)[:150])]
    if got != 424242:
        return ['the process now declares default 424242 for %s (schema override merged after a first build), but a store '
                'built from the same process instance holds %r at %s' % (tuple(v['q']), got, tuple(v['node']))]
    return []


def composite_initial_state(case):
    """a composite's initial_state() places each process's own initial values at the nodes its ports are wired to"""
    from vivarium.core.composer import Composite
    fails = []
    probe, processes, topology, _, _, _ = build(case, with_initial=False)
    nodes = {}
    ini = {}
    for v in case['variables']:
        node = tuple(v['node'])
        nodes.setdefault(node, 7000 + len(nodes))
        tset(ini, tuple(v['q']), nodes[node])
    probe.parameters['initial'] = ini
    try:
        comp = Composite({'processes': processes, 'topology': topology})
        got = comp.initial_state()
    except Exception as e:
        return ['Composite.initial_state raised %s: %s' % (type(e).__name__, str(e)[:150])]
    for node, want in nodes.items():
        g = tget(got, node)
        if g is KeyError or g != want:
            fails.append("composite.initial_state(): node %s holds %r, the process's own initial value for it is %r"
                         % (node, 'ABSENT' if g is KeyError else g, want))
    extra = [k for k in flat(got) if k not in nodes and not is_process_entry(k) and flat(got)[k] != {}]
    if extra:
        fails.append('composite.initial_state() has values at %s where no port of the process is wired' % (extra[:3],))
    if fails:
        return fails[:3]
    # the composite carries its own state for some nodes; a caller's override for OTHER variables of the same stores must
    # not stick: the next plain initial_state() is the first one again
    try:
        own = {}
        some = sorted(nodes)[: max(1, len(nodes) // 2)]
        for node in some:
            tset(own, node, 'own-%d' % nodes[node])
        comp2 = Composite({'processes': processes, 'topology': topology, 'state': own})
        first = copy.deepcopy(comp2.initial_state())
        override = {}
        for node in sorted(nodes):
            if node not in some:
                tset(override, node, 'override')
        for node in some:
            tset(override, node[:-1] + ('brand_new_sibling',), 'override')
        comp2.initial_state({'initial_state': override})
        second = comp2.initial_state()
        if flat(second) != flat(first):
            diff = [k for k in set(flat(first)) | set(flat(second)) if flat(first).get(k, KeyError) != flat(second).get(k, KeyError)]
            fails.append('after initial_state(config with an override) the composite gives a different plain initial_state() at %s: '
                         '%r, before %r' % (diff[:2], [flat(second).get(k, 'ABSENT') for k in diff[:2]],
                                            [flat(first).get(k, 'ABSENT') for k in diff[:2]]))
        for node in some:
            if tget(comp2.state, node) != 'own-%d' % nodes[node]:
                fails.append("the composite's own state at %s changed to %r" % (node, tget(comp2.state, node)))
    except Exception as e:
        fails.append('re-using the composite raised %s: %s' % (type(e).__name__, str(e)[:150]))
    return fails[:3]


def check_case(case, prop):
    fails = []
    probe, processes, topology, initial, expected, incs = build(case)
    try:
        eng = Engine(processes=processes, topology=topology, initial_state=copy.deepcopy(initial), display_info=False)
    except Exception as e:
        return ['engine construction raised %s: %s' % (type(e).__name__, str(e)[:200])]
    val0 = copy.deepcopy(eng.state.get_value())
    # ---- C15: every declared variable exists at its node and holds the initial value, else the default
    if prop == 'C15':
        for node, want in expected.items():
            got = tget(val0, node)
            if got is KeyError:
                fails.append('declared variable at %s does not exist after construction' % (node,))
            elif got != want:
                fails.append('variable at %s holds %r after construction, expected %r (initial value or declared default)'
                             % (node, got, want))
        probe2, pr2, to2, init2, exp2, _ = build(case, with_initial=False)
        try:
            st = generate_state(pr2, to2, copy.deepcopy(init2))
            v2 = st.get_value()
            for node, want in exp2.items():
                got = tget(v2, node)
                if got is KeyError or got != want:
                    fails.append('with only the glob children named in the initial state, the variable at %s is %r, '
                                 'declared default %r' % (node, 'ABSENT' if got is KeyError else got, want))
        except Exception as e:
            fails.append('generate_state raised %s: %s' % (type(e).__name__, str(e)[:150]))
        fails += composite_initial_state(case)
        if not fails:
            fails += rebuild_with_override(case, probe, processes, topology)
        return fails[:4]
    try:
        eng.update(1)
    except Exception as e:
        return ['update raised %s: %s' % (type(e).__name__, str(e)[:200])]
    val1 = eng.state.get_value()
    if not probe.seen:
        return ['the probe process was never invoked']
    states = probe.seen[0]
    # ---- read side: the value read for q is the value of the node q is wired to
    for v in case['variables']:
        q, node = tuple(v['q']), tuple(v['node'])
        read = tget(states, q)
        if read is KeyError:
            fails.append('declared variable %s missing from the states passed to next_update' % (q,))
            continue
        if read != tget(val0, node):
            fails.append('variable %s reads %r but the node it is wired to %s holds %r' % (q, read, node, tget(val0, node)))
    if prop == 'C07':
        decl = {tuple(v['q']) for v in case['variables']}
        seen = set(flat(states))
        extra = {k for k in seen if k not in decl and not any(d[:len(k)] == k for d in decl)}
        if extra:
            fails.append('states contain undeclared entries %s' % sorted(extra)[:4])
        return fails[:4]
    # ---- write side (C06): every node changed by exactly the increments wired to it; nothing else changed
    exp = flat(copy.deepcopy(val0))
    for q, (inc, node) in incs.items():
        exp[node] = exp.get(node, 0) + inc + (COUNT if case.get('count_mode') else 0)
    got = flat(val1)
    for k in set(exp) | set(got):
        if is_process_entry(k):
            continue
        if exp.get(k, KeyError) != got.get(k, KeyError):
            fails.append('after the update node %s holds %r, expected %r (value read + updates of all variables wired to it)'
                         % (k, got.get(k, 'ABSENT'), exp.get(k, 'ABSENT')))
    return fails[:4]


def main():
    ap = argparse.ArgumentParser()
    ap.add_argument('--prop', required=True)
    ap.add_argument('--tier', default='quick'); ap.add_argument('--seed', type=int, default=0)
    ap.add_argument('--out', default='out/replays'); ap.add_argument('--replay', default=None)
    a = ap.parse_args()
    if a.replay:
        case = json.load(open(a.replay))['scenario']
        if case.get('declaration_conflicts'):
            fails = declaration_conflicts()
            L.emit_result({'status': 'reproduced' if fails else 'not-reproduced', 'failed': fails})
            return
        fails = check_case(case, a.prop)
        L.emit_result({'status': 'reproduced' if fails else 'not-reproduced', 'failed': fails})
        return
    n = {'quick': 400, 'thorough': 10000}[a.tier]
    rng = random.Random('topo-%s-%d' % (a.prop, a.seed))
    evaluations = 0; distinct = set(); failures = []; samples = []
    for i in range(n):
        case = gen_case(rng, a.tier)
        case = json.loads(json.dumps(case))
        evaluations += 1
        fails = check_case(case, a.prop)
        shape = json.dumps([case['here'], case['topology']], sort_keys=True)
        if len(case['topology']) >= 2 or any(isinstance(v, dict) for v in case['topology'].values()):
            distinct.add(shape)
        if len(samples) < 2:
            samples.append({'here': case['here'], 'topology': case['topology']})
        if fails:
            rp = L.write_replay(a.out, a.prop, 'topo%d' % i, case, fails, extra={'driver': 'bounded.topo'})
            failures.append({'id': '%s.bounded.wiring#%d: %s' % (a.prop, i, fails[0][:220]), 'replay': rp})
            if len(failures) >= 3:
                break
    if a.prop == 'C15' and not a.replay:
        evaluations += 1
        fails = declaration_conflicts()
        if fails:
            rp = L.write_replay(a.out, 'C15', 'declarations', {'declaration_conflicts': True}, fails, extra={'driver': 'bounded.topo'})
            failures.append({'id': 'C15.bounded.declarations: %s' % fails[0][:260], 'replay': rp})
    L.emit_result({'status': 'violated' if failures else 'ok', 'evaluations': evaluations,
                   'distinct_nontrivial': len(distinct), 'failures': failures, 'samples': samples,
                   'rule': 'seeded random (ports schema, topology, placement, partial initial state); non-trivial = >= 2 ports or '
                           'a _path dictionary; distinct by (placement, topology)'})


if __name__ == '__main__':
    main()
