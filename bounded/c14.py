"""Bounded driver for C14 (serialization round trip) on the real serialize/deserialize functions.

LABEL: bounded stand-in (the substance lives in orjson and pint, external libraries).  Bound: value trees
of depth <= 3 (quick) / <= 4 (thorough) over: ints (|x| < 2**53), finite floats incl. 1e300/1e-300, bools, None,
strings, lists, tuples, sets, string-keyed dicts, numpy scalars and arrays, quantities (magnitudes nan, 0,
negative, 1e300, 1e-300, ints; compound units; unit names starting with 'nan') and bare units, processes,
functions; plus unsupported values and non-string keys (must raise TypeError).
Strings that look like a serializer tag ('!units[...]') are outside the domain (in-band tagging).
"""
import argparse, json, math, random
import numpy as np
from bounded import lib as L
from vivarium.core.serialize import serialize_value, deserialize_value
from vivarium.library.units import units, Quantity
from vivarium.core.process import Process


class P(Process):
    def ports_schema(self):
        return {}
    def next_update(self, timestep, states):
        return {}


def some_function(x):
    return x


UNITS = ['fg', 'nanometer', 'mmol/L', 'fg/fL', 'count', 'nanosecond', 'mg*nm/s**2', 'dimensionless']
MAGS = [0, 1, -3, 2.5, 1e300, 1e-300, -0.0, math.nan, 2 ** 52 + 1]


class TagSet(set):
    pass


class IdSet(set):
    pass


def leaf(rng):
    k = rng.randrange(15)
    if k == 14:
        # subclasses of registered types are serialized like the base type ("type matching is NOT exact"), whatever was
        # serialized before
        # serialized before (two different subclasses in ONE tree, so that a replay of the single value shows it)
        return rng.choice([[TagSet({1, 2}), IdSet({'a'})], (IdSet(), TagSet({3})),
                           [np.ma.MaskedArray([1.0, 2.0]), np.array([(1, 2.0)], dtype=[('i', int), ('f', float)]).view(np.recarray)['f']]])
    if k == 0: return rng.choice([0, 1, -7, 2 ** 53 - 1, -(2 ** 53) + 1])
    if k == 1: return rng.choice([0.0, 1.5, -2.25, 1e300, 1e-300, 0.1])
    if k == 2: return rng.choice([True, False])
    if k == 3: return None
    if k == 4: return rng.choice(['', 'abc', 'x y', 'units', '[', ']'])
    if k == 5: return np.int64(rng.choice([0, 5, -9]))
    if k == 6: return np.float64(rng.choice([0.5, -1.25]))
    if k == 7:
        # C-contiguous arrays are written by orjson itself; transposed / strided / Fortran-ordered ones go through
        # the registered numpy fallback serializer
        return rng.choice([np.array([[1, 2], [3, 4]]), np.array([0.5, 1.5]), np.array([[1, 2, 3], [4, 5, 6]]).T,
                           np.arange(6.0)[::2], np.asfortranarray(np.array([[1.5, 2.5], [3.5, 4.5]])),
                           np.array([[True, False], [False, True]]).T, np.arange(8)[1::3]])
    if k in (8, 9): return rng.choice(MAGS) * units(rng.choice(UNITS))
    if k == 10: return units(rng.choice(UNITS)).units
    if k == 11: return rng.choice([np.array([1.0, 2.0]), np.array([1.5]), np.array([]), np.array([0.5, 1.0, 2.0])]) * units.fg
    if k == 12: return P({'a': 1}) if rng.random() < 0.5 else some_function
    return rng.choice([1, 'a', 2.0])


def tree(rng, depth):
    if depth == 0 or rng.random() < 0.35:
        return leaf(rng)
    k = rng.randrange(4)
    n = rng.choice([0, 1, 2, 3])
    if k == 0:
        return [tree(rng, depth - 1) for _ in range(n)]
    if k == 1:
        return tuple(tree(rng, depth - 1) for _ in range(n))
    if k == 2:
        return {rng.choice(['a', 'b', 'key', '_x']): tree(rng, depth - 1) for _ in range(n)}
    return set(rng.sample([1, 2, 3, 'a', 'b'], min(n, 3)))


def plain_json(x):
    if x is None or isinstance(x, (bool, str)):
        return type(x) in (type(None), bool, str)
    if isinstance(x, int) and type(x) is int:
        return True
    if isinstance(x, float) and type(x) is float:
        return True
    if type(x) is list:
        return all(plain_json(y) for y in x)
    if type(x) is dict:
        return all(type(k) is str and plain_json(v) for k, v in x.items())
    return False


def expected(x):
    """What deserialize(serialize(x)) must equal: original, modulo what JSON cannot represent."""
    if isinstance(x, Quantity):
        return ('Q', x)
    if hasattr(x, 'dimensionality') and not isinstance(x, Quantity):   # bare unit
        return ('Q', 1 * x)
    if isinstance(x, (Process,)) or callable(x):
        return ('S',)          # string without deserializer
    if isinstance(x, np.ndarray):
        return expected(x.tolist())
    if isinstance(x, (np.integer,)):
        return int(x)
    if isinstance(x, (np.floating,)):
        return float(x)
    if isinstance(x, (list, tuple)):
        return [expected(y) for y in x]
    if isinstance(x, set):
        return ('SET', sorted(map(repr, x)))
    if isinstance(x, dict):
        return {k: expected(v) for k, v in x.items()}
    return x


def same(exp, got):
    if isinstance(exp, tuple) and exp and exp[0] == 'Q':
        q = exp[1]
        if isinstance(q.magnitude, np.ndarray):
            return isinstance(got, list) and len(got) == len(q) and all(same(('Q', a), b) for a, b in zip(q, got))
        if not isinstance(got, Quantity):
            return False
        if got.units != q.units:
            return False
        a, b = q.magnitude, got.magnitude
        return (isinstance(a, float) and math.isnan(a) and math.isnan(b)) or a == b
    if isinstance(exp, tuple) and exp and exp[0] == 'S':
        return isinstance(got, str)
    if isinstance(exp, tuple) and exp and exp[0] == 'SET':
        return isinstance(got, list) and sorted(map(repr, got)) == exp[1]
    if isinstance(exp, list):
        return isinstance(got, list) and len(exp) == len(got) and all(same(a, b) for a, b in zip(exp, got))
    if isinstance(exp, dict):
        return isinstance(got, dict) and set(exp) == set(got) and all(same(exp[k], got[k]) for k in exp)
    if isinstance(exp, float) and isinstance(got, float) and math.isnan(exp):
        return math.isnan(got)
    return type(exp) is type(got) and exp == got or (isinstance(exp, bool) is isinstance(got, bool) and exp == got)


def check(x):
    fails = []
    try:
        s = serialize_value(x)
    except Exception as e:
        return ['serialize_value raised %s: %s' % (type(e).__name__, str(e)[:120])]
    if not plain_json(s):
        fails.append('serialized form is not plain JSON data: %r' % (s,))
    try:
        if not same_plain(serialize_value(s), s):
            fails.append('serialize_value is not idempotent on its own output')
    except Exception as e:
        fails.append('re-serializing raised %s' % type(e).__name__)
    import copy
    kept = copy.deepcopy(s)
    try:
        d = deserialize_value(s)
    except Exception as e:
        fails.append('deserialize_value raised %s: %s' % (type(e).__name__, str(e)[:120]))
        return fails
    if not same(expected(x), d):
        fails.append('round trip: %r came back as %r' % (x, d))
    # reading is not writing: the serialized data (e.g. the rows a RAM emitter keeps) is what it was, a second read agrees
    if not plain_json(s) or not same_plain(s, kept):
        fails.append('deserialize_value modified the serialized data it was given: %r -> %r' % (kept, s))
    else:
        try:
            if not same(expected(x), deserialize_value(s)):
                fails.append('second read of the same serialized data: %r came back differently' % (x,))
        except Exception as e:
            fails.append('second deserialize_value raised %s' % type(e).__name__)
    return fails


def same_plain(a, b):
    if isinstance(a, float) and isinstance(b, float) and math.isnan(a) and math.isnan(b):
        return True
    if type(a) is not type(b):
        return False
    if isinstance(a, list):
        return len(a) == len(b) and all(same_plain(x, y) for x, y in zip(a, b))
    if isinstance(a, dict):
        return set(a) == set(b) and all(same_plain(a[k], b[k]) for k in a)
    return a == b


BAD = [lambda: {1: 'a'}, lambda: {'a': {(1, 2): 3}}, lambda: object(), lambda: {'k': object()},
       lambda: [1, {2.5: 1}], lambda: {np.str_('k'): 1}, lambda: complex(1, 2), lambda: {'x': b'bytes'}]


def main():
    ap = argparse.ArgumentParser()
    ap.add_argument('--tier', default='quick'); ap.add_argument('--seed', type=int, default=0)
    ap.add_argument('--out', default='out/replays'); ap.add_argument('--replay', default=None)
    a = ap.parse_args()
    if a.replay:
        d = json.load(open(a.replay))['scenario']
        rng = random.Random(d['rng']); x = tree(rng, d['depth'])
        fails = check(x)
        L.emit_result({'status': 'reproduced' if fails else 'not-reproduced', 'failed': fails[:3]})
        return
    n = 3000 if a.tier == 'quick' else 100000
    depth = 3 if a.tier == 'quick' else 4
    evaluations = 0; distinct = set(); failures = []; samples = []
    import warnings
    warnings.simplefilter('ignore')
    for i in range(n):
        sd = 'c14-%d-%d' % (a.seed, i)
        x = tree(random.Random(sd), depth)
        evaluations += 1
        fails = check(x)
        r = repr(x)
        if isinstance(x, (list, tuple, dict, set)) and len(r) > 12:
            distinct.add(r)
        if len(samples) < 3 and isinstance(x, dict) and len(r) > 30:
            samples.append(r[:300])
        if fails:
            rp = L.write_replay(a.out, 'C14', 'val%d' % i, {'rng': sd, 'depth': depth, 'repr': r[:500]}, fails,
                                extra={'driver': 'bounded.c14'})
            failures.append({'id': 'C14.bounded.roundtrip#%d: %s' % (i, fails[0][:200]), 'replay': rp})
            if len(failures) >= 3:
                break
    for j, mk in enumerate(BAD):
        evaluations += 1
        try:
            out = serialize_value(mk())
            fails = ['unsupported value / non-string key was serialized to %r instead of raising TypeError' % (out,)]
        except TypeError:
            fails = []
        except Exception as e:
            fails = ['unsupported value raised %s, not TypeError' % type(e).__name__]
        if fails:
            rp = L.write_replay(a.out, 'C14', 'bad%d' % j, {'bad_index': j}, fails, extra={'driver': 'bounded.c14'})
            failures.append({'id': 'C14.bounded.reject#%d: %s' % (j, fails[0][:200]), 'replay': rp})
    L.emit_result({'status': 'violated' if failures else 'ok', 'evaluations': evaluations,
                   'distinct_nontrivial': len(distinct), 'failures': failures, 'samples': samples or ['(scalars only)'],
                   'rule': 'seeded random value trees; non-trivial = container values; distinct by repr'})


if __name__ == '__main__':
    main()
