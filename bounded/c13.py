"""Bounded driver for C13 (parallel processes are transparent and always shut down cleanly) with real OS processes.

LABEL: bounded stand-in (the substance -- pipes, OS processes, reaping -- is outside any contract within reach).
Bound: schedule scenarios of 2..3 processes from the generator of the scheduling properties with every non-empty
subset (quick: 2 subsets) marked parallel, compared with the serial run; end() after the run, twice, between
run_for calls, and never (engine dropped); deletion of a compartment holding parallel processes that are idle / due in
the same batch / have an update in flight, with the deleting process listed first or last; profiling on with a
large profile; afterwards no live multiprocessing children.
"""
import argparse, copy, gc, json, multiprocessing, random, time
from bounded import lib as L
from vivarium.core.engine import Engine
from vivarium.core.process import Process


class Inc(Process):
    defaults = {'timestep': 2.0}
    def ports_schema(self):
        return {'s': {'x': {'_default': 0, '_emit': True}}}
    def next_update(self, timestep, states):
        return {'s': {'x': 1}}


class Killer(Process):
    defaults = {'timestep': 1.0, 'at': 1}
    def ports_schema(self):
        return {'agents': {'*': {}}, 'g': {'k': {'_default': 0, '_emit': True}}}
    def next_update(self, timestep, states):
        if states['g']['k'] + 1 == self.parameters['at'] and 'a1' in states['agents']:
            return {'agents': {'_delete': ['a1']}, 'g': {'k': 1}}
        return {'g': {'k': 1}}


def _mk(i):
    def f(x):
        return x + i
    f.__name__ = 'helper_%d' % i
    f.__qualname__ = 'helper_%d' % i
    return f


HELPERS = None


class Heavy(Process):
    """calls many distinct functions so that its cProfile stats are larger than a pipe buffer"""
    defaults = {'timestep': 1.0, 'n': 4000}
    def ports_schema(self):
        return {'s': {'h': {'_default': 0, '_emit': True}}}
    def next_update(self, timestep, states):
        global HELPERS
        if HELPERS is None:
            ns = {}
            for i in range(self.parameters['n']):
                exec('def helper_%d(x):\n    return x + %d\n' % (i, i), ns)
            HELPERS = [ns['helper_%d' % i] for i in range(self.parameters['n'])]
        t = 0
        for h in HELPERS:
            t = h(0)
        return {'s': {'h': 1}}


class Exchange(Process):
    """declares A (default 0.0, accumulate); runs only while `enabled` (declared through the _condition mechanism)"""
    defaults = {'timestep': 1.0}

    def ports_schema(self):
        return {'internal': {'A': {'_default': 0.0, '_emit': True}}}

    def next_update(self, timestep, states):
        return {'internal': {'A': 1.0}}


class Adaptive(Process):
    """its timestep is read from the state (ctl/dt), which another process changes while this one is deferred"""
    defaults = {}

    def ports_schema(self):
        return {'ctl': {'dt': {'_default': 3.0, '_emit': True}}, 'out': {'elapsed': {'_default': 0.0, '_emit': True},
                                                                          'runs': {'_default': 0, '_emit': True}}}

    def calculate_timestep(self, states):
        return states['ctl']['dt']

    def next_update(self, timestep, states):
        return {'out': {'elapsed': timestep, 'runs': 1}}


class Retune(Process):
    defaults = {'timestep': 1.0, 'script': {}}

    def __init__(self, parameters=None):
        super().__init__(parameters)
        self.k = 0

    def ports_schema(self):
        return {'ctl': {'dt': {'_default': 3.0, '_updater': 'set'}}}

    def next_update(self, timestep, states):
        self.k += 1
        v = self.parameters['script'].get(self.k)
        return {'ctl': {'dt': v}} if v is not None else {}


# (the answer changes while the process is deferred, but never to an interval that ends at or before the current global time:
#  that is the region of the recorded finding F-C03-shrink)
ADAPTIVE_CASES = [{'script': {1: 2.5}, 'calls': [2.0, 2.0, 2.0]}, {'script': {1: 4.0}, 'calls': [2.0, 2.0, 2.0]},
                  {'script': {2: 3.5}, 'calls': [2.5, 2.5, 2.0]}, {'script': {}, 'calls': [2.0, 2.0, 2.0]}]


def adaptive_case(case, parallel):
    eng = Engine(processes={'retune': Retune({'script': case['script']}), 'adaptive': Adaptive({'_parallel': parallel})},
                 topology={'retune': {'ctl': ('ctl',)}, 'adaptive': {'ctl': ('ctl',), 'out': ('out',)}},
                 display_info=False, progress_bar=False)
    for dt in case['calls']:
        eng.run_for(dt)            # caller-managed, not forced: a process whose interval does not fit is asked again later
    eng.update(1.0)
    data = eng.emitter.get_data()
    eng.end()
    return data


def check_adaptive(case):
    """a process whose timestep depends on the STATE, asked for it again after the state changed (it was deferred in between): in its
    own OS process it runs at the same times with the same timesteps as serially"""
    try:
        with L.Watchdog(90):
            serial = adaptive_case(case, False)
            par = adaptive_case(case, True)
    except Exception as e:
        return ['state-dependent timestep with a parallel process raised %s: %s' % (type(e).__name__, str(e)[:160])]
    if serial != par:
        t = next((t for t in serial if par.get(t) != serial[t]), None)
        return ['a state-dependent timestep: the parallel run differs from the serial run; first difference at t=%s: serial %r, parallel %r'
                % (t, serial.get(t), par.get(t))]
    return []


OVERRIDE_CASES = [
    {'_schema': {'internal': {'A': {'_default': 7.0}, 'B': {'_default': 3, '_emit': True}}}},
    {'_schema': {'internal': {'A': {'_updater': 'set'}}}},
    {'_condition': ('internal', 'enabled'), '_schema': {'internal': {'enabled': {'_default': True, '_emit': True}}}},
]


def override_case(cfg, parallel):
    proc = Exchange(dict(copy.deepcopy(cfg), _parallel=parallel))
    eng = Engine(processes={'ex': proc}, topology={'ex': {'internal': ('cell',)}}, display_info=False, progress_bar=False)
    built = copy.deepcopy(eng.state.get_value()['cell'])
    eng.update(3)
    data = eng.emitter.get_data()
    final = copy.deepcopy(eng.state.get_value()['cell'])
    eng.end()
    return built, data, final


def check_override(cfg):
    """a schema override (`_schema`, `_condition`) of a process marked parallel is declared exactly as for the serial process: same
    hierarchy after construction (every declared variable with its declared default), same trajectory"""
    fails = []
    try:
        with L.Watchdog(90):
            serial = override_case(cfg, False)
            par = override_case(cfg, True)
    except Exception as e:
        return ['schema override with a parallel process raised %s: %s' % (type(e).__name__, str(e)[:160])]
    want = {'A': 0.0}
    for k, v in cfg.get('_schema', {}).get('internal', {}).items():
        if '_default' in v:
            want[k] = v['_default']
    for label, got in (('serial', serial), ('parallel', par)):
        for k, v in want.items():
            if got[0].get(k, KeyError) != v:
                fails.append('%s process: after construction the declared variable %s holds %r, its declared default is %r (store %r)'
                             % (label, k, got[0].get(k, 'nothing (missing)'), v, got[0]))
    if serial[1] != par[1] or serial[2] != par[2]:
        fails.append('marking the process parallel changes the run: final state serial %r, parallel %r' % (serial[2], par[2]))
    return fails[:3]


def children():
    return list(multiprocessing.active_children())


def settle():
    for _ in range(20):
        if not children():
            return []
        time.sleep(0.1)
    return children()


def run_sched(scn, par):
    tr, eng, err = L.run_schedule(scn, parallel_names=par, watchdog=60)
    data = eng.emitter.get_data() if eng is not None else None
    final = None
    if eng is not None:
        v = eng.state.get_value()
        final = v.get('s')
    return data, final, err


def deletion_case(parallel, at, killer_first, how_end):
    inc1 = Inc({'_parallel': parallel}); inc2 = Inc({'_parallel': parallel})
    agents = {'a1': {'inc': inc1}, 'a2': {'inc': inc2}}
    killer = Killer({'at': at})
    procs = {'killer': killer, 'agents': agents} if killer_first else {'agents': agents, 'killer': killer}
    topo = {'agents': {'a1': {'inc': {'s': ('s',)}}, 'a2': {'inc': {'s': ('s',)}}},
            'killer': {'agents': ('agents',), 'g': ('g',)}}
    eng = Engine(processes=procs, topology=topo, display_info=False)
    eng.update(5)
    data = eng.emitter.get_data()
    if how_end == 'once':
        eng.end()
    elif how_end == 'twice':
        eng.end(); eng.end()
    else:
        del eng, procs, agents, inc1, inc2, killer
        L.new_trace()          # the monitor's reference to the engine must not keep it alive
        gc.collect()
    return data


def main():
    ap = argparse.ArgumentParser()
    ap.add_argument('--tier', default='quick'); ap.add_argument('--seed', type=int, default=0)
    ap.add_argument('--out', default='out/replays'); ap.add_argument('--replay', default=None)
    ap.add_argument('--only', default=None); ap.add_argument('--prop', default='C13')
    a = ap.parse_args()
    rng = random.Random('c13-%d' % a.seed)
    evaluations = 0; failures = []; samples = []; distinct = set()

    def fail(name, scn, fails):
        rp = L.write_replay(a.out, a.prop, name, scn, fails, extra={'driver': 'bounded.c13'})
        failures.append({'id': '%s.bounded.%s: %s' % (a.prop, name, fails[0][:260]), 'replay': rp})

    if a.replay:
        d = json.load(open(a.replay))['scenario']
        if 'override' in d:
            fails = check_override(d['override'] if not isinstance(d['override'], int) else OVERRIDE_CASES[d['override']])
            L.emit_result({'status': 'reproduced' if fails else 'not-reproduced', 'failed': fails})
            return
    if a.replay and 'adaptive' in json.load(open(a.replay))['scenario']:
        fails = check_adaptive(ADAPTIVE_CASES[json.load(open(a.replay))['scenario']['adaptive']])
        L.emit_result({'status': 'reproduced' if fails else 'not-reproduced', 'failed': fails})
        return
    # (5) state-dependent timesteps
    if a.only is None:
        for ai, case in enumerate(ADAPTIVE_CASES):
            evaluations += 1
            distinct.add('adaptive-%d' % ai)
            fails = check_adaptive(case)
            left = settle()
            if left:
                fails.append('%d worker processes alive after the adaptive case' % len(left))
                for c in left:
                    c.terminate()
            if fails:
                fail('adaptive%d' % ai, {'adaptive': ai}, fails)
    # (4) schema overrides of parallel processes
    for oi, cfg in enumerate(OVERRIDE_CASES):
        evaluations += 1
        distinct.add('override-%d' % oi)
        fails = check_override(cfg)
        left = settle()
        if left:
            fails.append('%d worker processes alive after the override case' % len(left))
            for c in left:
                c.terminate()
        if fails:
            fail('override%d' % oi, {'override': oi}, fails)
    if a.only == 'override':
        L.emit_result({'status': 'violated' if failures else 'ok', 'evaluations': evaluations,
                       'distinct_nontrivial': len(distinct), 'failures': failures[:3], 'samples': [{'override': OVERRIDE_CASES[0]['_schema']}],
                       'rule': 'fixed family of schema overrides (_schema default / new variable / updater, _condition) on a process run '
                               'serially and in its own OS process; distinct by case'})
        return

    # (1) transparency on schedules
    n_sched = 6 if a.tier == 'quick' else 60
    for i in range(n_sched):
        scn = L.gen_schedule(rng, a.tier)
        scn['procs'] = scn['procs'][:3]
        scn['order'] = [o for o in scn['order'] if o < len(scn['procs'])]
        scn['calls'] = scn['calls'][:2]
        names = [p['name'] for p in scn['procs']]
        subsets = [names] + ([[names[0]]] if len(names) > 1 else [])
        if a.tier == 'thorough':
            subsets = [list(s) for k in range(1, len(names) + 1) for s in __import__('itertools').combinations(names, k)]
        serial = run_sched(scn, ())
        if serial[2]:
            continue
        for par in subsets:
            evaluations += 1
            distinct.add(json.dumps([L.summarize(scn), par], sort_keys=True))
            got = run_sched(scn, tuple(par))
            fails = []
            if got[2]:
                fails.append('with %s parallel the engine failed: %s' % (par, got[2][1]))
            elif got[0] != serial[0] or got[1] != serial[1]:
                fails.append('marking %s parallel changes the emitted trajectory / final state' % (par,))
            left = settle()
            if left:
                fails.append('%d worker processes alive after Engine.end()' % len(left))
                for c in left:
                    c.terminate()
            if len(samples) < 2:
                samples.append({'schedule': L.summarize(scn), 'parallel': par})
            if fails:
                fail('sched%d' % evaluations, {'schedule': scn, 'parallel': par}, fails)
        if len(failures) >= 3:
            break
    # (2) deletion with idle / due / in-flight parallel processes, end() once / twice / never
    cases = [(at, kf, how) for at in (1, 2) for kf in (True, False) for how in ('once', 'twice', 'never')]
    if a.tier == 'quick':
        cases = [c for i, c in enumerate(cases) if i % 2 == a.seed % 2]
    for at, kf, how in cases:
        evaluations += 1
        distinct.add(json.dumps(['delete', at, kf, how]))
        fails = []
        try:
            with L.Watchdog(90):
                serial = deletion_case(False, at, kf, how)
                par = deletion_case(True, at, kf, how)
            if serial != par:
                fails.append('deleting a compartment with parallel processes (delete at %d, deleter %s) changes the trajectory'
                             % (at, 'first' if kf else 'last'))
        except Exception as e:
            fails.append('deletion at %d (deleter %s, end %s) raised %s: %s' % (at, 'first' if kf else 'last', how, type(e).__name__, str(e)[:160]))
        left = settle()
        if left:
            fails.append('%d worker processes alive after deletion + end(%s)' % (len(left), how))
            for c in left:
                c.terminate()
        if fails:
            fail('delete-%d-%s-%s' % (at, kf, how), {'at': at, 'killer_first': kf, 'end': how}, fails)
    # (3) profiling with a large profile
    evaluations += 1
    distinct.add('profile')
    fails = []
    try:
        with L.Watchdog(120):
            eng = Engine(processes={'h': Heavy({'_parallel': True})}, topology={'h': {'s': ('s',)}}, profile=True, display_info=False)
            eng.update(2)
            eng.end()
            eng.end()
            if eng.stats is None:
                fails.append('no profiling statistics after end()')
    except TimeoutError as e:
        fails.append('Engine.end() with profiling did not return: %s' % e)
    except Exception as e:
        fails.append('profiled parallel run raised %s: %s' % (type(e).__name__, str(e)[:160]))
    left = settle()
    if left:
        fails.append('%d worker processes alive after profiled end()' % len(left))
        for c in left:
            c.terminate()
    if fails:
        fail('profile', {'profile': True}, fails)
    L.emit_result({'status': 'violated' if failures else 'ok', 'evaluations': evaluations,
                   'distinct_nontrivial': len(distinct), 'failures': failures[:3], 'samples': samples,
                   'rule': 'seeded schedules x parallel subsets vs serial run; deletion cases enumerated; distinct by case; '
                           'every case starts real OS worker processes'})


if __name__ == '__main__':
    main()
