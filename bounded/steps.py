"""Bounded driver for C05 (steps run once per phase, after process updates, in dependency order) and C04
(one committed snapshot per pass; listing order is moot) on the real engine.

LABEL: bounded stand-in.  Bound: flows that are DAGs over <= 4 (quick) / <= 5 (thorough) steps plus 0..2 legacy
derivers, optionally nested one level; 1..2 ticking processes with timesteps {1, 2}; 3 ticks; a structural
variant in which a first-layer step _adds a child per phase and a dependent step reads the branch through a
glob port.  C04: all permutations (<= 24 sampled) of the listing order of processes / steps / topology
entries of the same composite must give the identical emitted trajectory.
"""
import argparse
import copy
import itertools
import json
import random

from bounded import lib as L
from vivarium.core.engine import Engine
from vivarium.core.process import Process, Step, Deriver

LOG = []


class Ticker(Process):
    defaults = {'timestep': 1.0}

    def ports_schema(self):
        return {'g': {'n': {'_default': 0, '_emit': True}}}

    def next_update(self, timestep, states):
        LOG.append(('proc', self.parameters['name'], timestep, L.gt(), copy.deepcopy(states)))
        return {'g': {'n': 1}}


def sv_schema(names):
    return {n: {'_default': 0, '_updater': 'set', '_emit': True} for n in names}


class DagStep(Step):
    """v_i := 1 + max(v_j for dependencies j), or 10*n when it has none"""

    def ports_schema(self):
        return {'sv': sv_schema(self.parameters['all']), 'g': {'n': {'_default': 0}}}

    def next_update(self, timestep, states):
        me = self.parameters['name']
        LOG.append(('step', me, timestep, L.gt(), copy.deepcopy(states)))
        deps = self.parameters['deps']
        if deps:
            v = 1 + max(states['sv'][d] for d in deps)
        else:
            v = 10 * states['g']['n']
        return {'sv': {me: v}}


class SeqDeriver(Deriver):
    """w_k := w_(k-1) + 1 (derivers run one at a time in declaration order), w_0 := 100*n"""

    def ports_schema(self):
        return {'sw': sv_schema(self.parameters['all']), 'g': {'n': {'_default': 0}}}

    def next_update(self, timestep, states):
        me = self.parameters['name']
        LOG.append(('deriver', me, timestep, L.gt(), copy.deepcopy(states)))
        prev = self.parameters['prev']
        v = states['sw'][prev] + 1 if prev else 100 * states['g']['n']
        return {'sw': {me: v}}


class Spawner(Step):
    def ports_schema(self):
        return {'colony': {'*': {'m': {'_default': 1, '_emit': True}}}, 'g': {'spawned': {'_default': 0, '_emit': True}}}

    def next_update(self, timestep, states):
        k = states['g']['spawned']
        LOG.append(('step', 'spawner', timestep, L.gt(), copy.deepcopy(states)))
        return {'colony': {'_add': [{'key': 'c%d' % k, 'state': {'m': 1}}]}, 'g': {'spawned': 1}}


class Census(Step):
    def ports_schema(self):
        return {'colony': {'*': {'m': {'_default': 1}}},
                'g': {'spawned': {'_default': 0}, 'count': {'_default': 0, '_updater': 'set', '_emit': True}}}

    def next_update(self, timestep, states):
        LOG.append(('step', 'census', timestep, L.gt(), copy.deepcopy(states)))
        return {'g': {'count': len(states['colony'])}}


def gen_dag(rng, tier):
    n = rng.choice([2, 3, 4] if tier == 'quick' else [2, 3, 4, 5])
    names = ['s%d' % i for i in range(n)]
    order = names[:]
    rng.shuffle(order)          # a topological order unrelated to the names / listing order
    deps = {}
    for i, s in enumerate(order):
        cands = order[:i]
        k = rng.choice([0, 1, 1, 2]) if cands else 0
        deps[s] = sorted(rng.sample(cands, min(k, len(cands))))
    nd = rng.choice([0, 1, 2])
    nested = rng.random() < 0.4
    return {'steps': names, 'deps': deps, 'derivers': ['d%d' % i for i in range(nd)], 'nested': nested,
            'timesteps': [rng.choice([1.0, 2.0]) for _ in range(rng.choice([1, 2]))],
            'structural': rng.random() < 0.35, 'listing': rng.sample(names, len(names)),
            'entry': rng.choice(['parts', 'parts', 'store'])}


def build(scn, perm=None):
    del LOG[:]
    base = ('cell',) if scn['nested'] else ()
    steps, flow, topo, procs = {}, {}, {}, {}
    sport = {'sv': ('sv',), 'g': ('g',)}
    listing = scn['listing']
    for s in listing:
        steps[s] = DagStep({'name': s, 'deps': scn['deps'][s], 'all': scn['steps']})
        flow[s] = [(d,) for d in scn['deps'][s]]
        topo[s] = dict(sport)
    prev = None
    for d in scn['derivers']:
        steps[d] = SeqDeriver({'name': d, 'prev': prev, 'all': scn['derivers']})
        topo[d] = {'sw': ('sw',), 'g': ('g',)}
        prev = d
    if scn['structural']:
        steps['spawner'] = Spawner({})
        steps['census'] = Census({})
        flow['spawner'] = []
        flow['census'] = [('spawner',)]
        topo['spawner'] = {'colony': ('colony',), 'g': ('g',)}
        topo['census'] = {'colony': ('colony',), 'g': ('g',)}
    for i, dt in enumerate(scn['timesteps']):
        procs['t%d' % i] = Ticker({'name': 't%d' % i, 'timestep': dt})
        topo['t%d' % i] = {'g': ('g',) if not scn['nested'] else ('g',)}
    if perm is not None:
        def reorder(d, key):
            keys = list(d.keys())
            r = random.Random('%s-%s' % (perm, key))
            r.shuffle(keys)
            return {k: d[k] for k in keys}
        steps, flow, topo, procs = reorder(steps, 's'), reorder(flow, 'f'), reorder(topo, 't'), reorder(procs, 'p')
        # derivers keep their relative declaration order (it is semantically relevant)
        ders = [d for d in scn['derivers']]
        steps = {**{k: v for k, v in steps.items() if k not in ders}, **{d: steps[d] for d in ders}}
        steps = {k: steps[k] for k in sorted(steps, key=lambda k: (k in ders and ders.index(k) or 0) if k in ders else -1)} \
            if False else steps
    init = {'colony': {}} if scn['structural'] else {}

    def nest(d):
        out = d
        for b in reversed(base):
            out = {b: out}
        return out
    entry = scn.get('entry', 'parts')
    if entry == 'store':
        # the same composite loaded through the store it generates (flow and steps are read back out of the hierarchy)
        from vivarium.core.composer import Composite
        comp = Composite({'processes': nest(procs), 'steps': nest(steps), 'flow': nest(flow), 'topology': nest(topo),
                          'state': nest(init) if init else {}})
        eng = Engine(store=comp.generate_store(), display_info=False)
    else:
        eng = Engine(processes=nest(procs), steps=nest(steps), flow=nest(flow), topology=nest(topo),
                     initial_state=nest(init) if init else {}, display_info=False)
    return eng, base


def depth_of(scn):
    memo = {}

    def d(s):
        if s not in memo:
            memo[s] = 0 if not scn['deps'][s] else 1 + max(d(x) for x in scn['deps'][s])
        return memo[s]
    return {s: d(s) for s in scn['steps']}


def check_c05(scn):
    fails = []
    L.instrument()
    L.new_trace()
    try:
        eng, base = build(scn)
        marks = [len(LOG)]
        for _ in range(3):
            eng.update(1)
            marks.append(len(LOG))
    except Exception as e:
        return ['engine raised %s: %s' % (type(e).__name__, str(e)[:240])]
    # phases from the engine trace
    ev = L.CUR.events
    phases = []     # (index in LOG at begin, at end) -- we use order of LOG entries between steps-begin/steps-end
    # simpler: reconstruct phases from LOG by the clock + kind sequence: a phase = maximal run of step/deriver entries
    runs, cur = [], []
    for e in LOG:
        if e[0] in ('step', 'deriver'):
            cur.append(e)
        else:
            if cur:
                runs.append(cur)
                cur = []
    if cur:
        runs.append(cur)
    n_phases = sum(1 for x in ev if x[0] == 'steps-begin')
    if len(runs) != n_phases:
        fails.append('%d step phases in the engine trace but the step calls form %d groups (a step ran between '
                     'process invocations)' % (n_phases, len(runs)))
    expected_names = set(scn['steps']) | set(scn['derivers']) | ({'spawner', 'census'} if scn['structural'] else set())
    dep = depth_of(scn)
    for pi, run in enumerate(runs):
        names = [e[1] for e in run]
        if sorted(names) != sorted(expected_names):
            fails.append('phase %d ran steps %s, expected each of %s exactly once' % (pi, names, sorted(expected_names)))
            continue
        if any(e[2] != 0 for e in run):
            fails.append('phase %d: a step was handed a non-zero timestep' % pi)
        pos = {n: i for i, n in enumerate(names)}
        # derivers first, one at a time, in declaration order
        for i, d in enumerate(scn['derivers']):
            if pos[d] != i:
                fails.append('phase %d: deriver %s ran at position %d (derivers run first, in declaration order): %s'
                             % (pi, d, pos[d], names))
        for s in scn['steps']:
            for d in scn['deps'][s]:
                if pos[d] > pos[s]:
                    fails.append('phase %d: step %s ran before its dependency %s' % (pi, s, d))
        # a step sees the outputs of its dependencies of THIS phase
        for e in run:
            if e[0] == 'step' and e[1] in scn['deps']:
                st = e[4]
                n = st['g']['n']
                for d in scn['deps'][e[1]]:
                    want = 10 * n + dep[d]
                    if st['sv'][d] != want:
                        fails.append('phase %d: step %s saw %s=%r, but its dependency computed %r in this phase'
                                     % (pi, e[1], d, st['sv'][d], want))
            if e[0] == 'deriver':
                me = e[1]
                k = scn['derivers'].index(me)
                if k > 0:
                    prev = scn['derivers'][k - 1]
                    want = 100 * e[4]['g']['n'] + (k - 1)
                    if e[4]['sw'][prev] != want:
                        fails.append('phase %d: deriver %s saw %s=%r, expected %r (previous deriver applied first)'
                                     % (pi, me, prev, e[4]['sw'][prev], want))
            if e[1] == 'census':
                spawned = e[4]['g']['spawned']
                if len(e[4]['colony']) != spawned:
                    fails.append('phase %d: census (depends on spawner) was shown %d colony members while %d had been spawned'
                                 % (pi, len(e[4]['colony']), spawned))
        # steps of one layer see the same state of sv
        layers = {}
        for e in run:
            if e[0] == 'step' and e[1] in dep:
                layers.setdefault(dep[e[1]], []).append(e)
        for lv, es in layers.items():
            for e in es[1:]:
                if e[4]['sv'] != es[0][4]['sv']:
                    fails.append('phase %d: steps %s and %s of one layer saw different states' % (pi, es[0][1], e[1]))
    # after the last phase the values are the fixed point
    val = eng.state.get_value()
    for b in base:
        val = val[b]
    n = val['g']['n']
    for s in scn['steps']:
        if val['sv'][s] != 10 * n + dep[s]:
            fails.append('after the run %s=%r, expected %r' % (s, val['sv'][s], 10 * n + dep[s]))
    return fails[:4]


class GGrow(Process):
    defaults = {'timestep': 1.0}

    def ports_schema(self):
        return {'v': {'x': {'_default': 0, '_updater': 'accumulate', '_emit': True}}}

    def next_update(self, timestep, states):
        return {'v': {'x': 1}}


class GDouble(Step):
    def ports_schema(self):
        return {'v': {'x': {'_default': 0}, 'y': {'_default': 0, '_updater': 'set', '_emit': True}}}

    def next_update(self, timestep, states):
        return {'v': {'y': 2 * states['v']['x']}}


class GSucc(Step):
    def ports_schema(self):
        return {'v': {'y': {'_default': 0}, 'z': {'_default': 0, '_updater': 'set', '_emit': True}}}

    def next_update(self, timestep, states):
        return {'v': {'z': states['v']['y'] + 1}}


class GReaper(Step):
    """a legacy deriver that removes its own agent (death) once x has reached a threshold"""
    defaults = {'key': '', 'at': 2}

    def ports_schema(self):
        return {'v': {'x': {'_default': 0}}, 'agents': {}}

    def next_update(self, timestep, states):
        if states['v']['x'] >= self.parameters['at']:
            return {'agents': {'_delete': [self.parameters['key']]}}
        return {}


class GDivider(Step):
    """a flow step that divides its own agent once x has reached a threshold (the daughters inherit processes and steps)"""
    defaults = {'key': '', 'at': 2}

    def ports_schema(self):
        return {'v': {'x': {'_default': 0}}, 'agents': {}}

    def next_update(self, timestep, states):
        key = self.parameters['key']
        if states['v']['x'] >= self.parameters['at'] and not getattr(self, 'done', False):
            self.done = True         # the daughters' copies of this step are made after this: they never divide again
            return {'agents': {'_divide': {'mother': key, 'daughters': [{'key': key + '0'}, {'key': key + '1'}]}}}
        return {}


class GCount(Step):
    """runs once per phase: c += 1 (a step that runs twice in a phase is visible, unlike the idempotent double/succ)"""

    def ports_schema(self):
        return {'v': {'c': {'_default': 0, '_updater': 'accumulate'}}}

    def next_update(self, timestep, states):
        return {'v': {'c': 1}}


class GSpawner(Process):
    """adds agents at scripted ticks through _generate; optionally deletes one later"""
    defaults = {'timestep': 1.0, 'script': {}}

    def __init__(self, parameters=None):
        super().__init__(parameters)
        self.k = 0

    def ports_schema(self):
        return {'agents': {}}

    def next_update(self, timestep, states):
        self.k += 1
        ops = self.parameters['script'].get(self.k)
        if not ops:
            return {}
        up = {}
        for op in ops:
            if op[0] == 'generate':
                up.setdefault('_generate', []).append(agent_spec(op[1], op[2]))
            elif op[0] == 'delete':
                up.setdefault('_delete', []).append(op[1])
        return {'agents': up}


def agent_spec(key, style):
    """an agent with a process and two chained steps: legacy derivers (no flow), derivers listed among the processes, or
    flow steps (chain or one layer)"""
    topo = {'grow': {'v': ('v',)}, 'double': {'v': ('v',)}, 'succ': {'v': ('v',)}}
    d = {'key': key, 'processes': {'grow': GGrow()}, 'topology': topo, 'initial_state': {}}
    if style == 'legacy-steps':
        d['steps'] = {'double': GDouble(), 'succ': GSucc(), 'count': GCount()}
        d['topology'] = dict(topo, count={'v': ('v',)})
    elif style == 'legacy-in-processes':
        d['processes'].update({'double': GDouble(), 'succ': GSucc()})
    elif style == 'legacy-reaper':
        # dies (deletes its own compartment from inside a step phase) when x reaches 2
        d['steps'] = {'reaper': GReaper({'key': key, 'at': 2}), 'double': GDouble(), 'succ': GSucc()}
        d['topology'] = dict(topo, reaper={'v': ('v',), 'agents': ('..',)})
    elif style == 'flow-reaper':
        # as legacy-reaper, but the steps are in the flow: the reaper is the root, `double` and `succ` depend on it in a chain, so
        # when it removes the agent the later layers of the SAME phase hold steps that are gone (and depend on one another)
        d['steps'] = {'reaper': GReaper({'key': key, 'at': 2}), 'double': GDouble(), 'succ': GSucc()}
        d['flow'] = {'reaper': [], 'double': [('reaper',)], 'succ': [('double',)]}
        d['topology'] = dict(topo, reaper={'v': ('v',), 'agents': ('..',)})
    elif style == 'flow-divider':
        # the dividing step and `double` are in ONE layer: `double` still has an update in flight when the division is
        # applied; the daughters inherit the mother's processes and steps
        d['steps'] = {'adivide': GDivider({'key': key, 'at': 2}), 'double': GDouble(), 'succ': GSucc()}
        d['flow'] = {'adivide': [], 'double': [], 'succ': [('double',)]}
        d['topology'] = dict(topo, adivide={'v': ('v',), 'agents': ('..',)})
    elif style == 'flow-divider-nested':
        # as flow-divider, but the chain double -> succ lives one level further down (a sub-compartment of the agent), declared
        # with the dependent FIRST: only the flow puts `double` before `succ`, before and after the division
        d['steps'] = {'adivide': GDivider({'key': key, 'at': 2}), 'sub': {'succ': GSucc(), 'double': GDouble()}}
        d['flow'] = {'adivide': [], 'sub': {'succ': [('double',)], 'double': []}}
        d['topology'] = {'grow': {'v': ('v',)}, 'adivide': {'v': ('v',), 'agents': ('..',)},
                         'sub': {'succ': {'v': ('..', 'v')}, 'double': {'v': ('..', 'v')}}}
    elif style == 'flow-chain':
        d['steps'] = {'double': GDouble(), 'succ': GSucc()}
        d['flow'] = {'double': [], 'succ': [('double',)]}
    elif style == 'flow-layer':
        d['steps'] = {'double': GDouble(), 'succ': GSucc()}
        d['flow'] = {'double': [], 'succ': []}
    return d


GEN_STYLES = ['legacy-steps', 'legacy-in-processes', 'flow-chain', 'flow-layer', 'legacy-reaper', 'flow-divider']


class GTag(Step):
    defaults = {'tag': ''}

    def ports_schema(self):
        return {'v': {'n': {'_default': 0}}}

    def next_update(self, timestep, states):
        GTAG_RUNS.append((self.parameters['tag'], L.gt()))
        return {}


GTAG_RUNS = []


class GStepDeleter(Process):
    defaults = {'timestep': 1.0, 'at': 2, 'what': 'derived'}

    def __init__(self, parameters=None):
        super().__init__(parameters)
        self.k = 0

    def ports_schema(self):
        return {'box': {'*': {}}}

    def next_update(self, timestep, states):
        self.k += 1
        return {'box': {'_delete': [self.parameters['what']]}} if self.k == self.parameters['at'] else {}


def check_leaf_step_delete(shape):
    """a flow step that nothing depends on is deleted on its own; the steps IT depended on stay in the hierarchy and keep running
    once per phase (the other direction -- deleting a step that others depend on -- is the recorded finding F-C10-orphan-dependents)"""
    del GTAG_RUNS[:]
    L.new_trace()
    steps = {'base': GTag({'tag': 'base'}), 'derived': GTag({'tag': 'derived'})}
    flow = {'base': [], 'derived': [('base',)]}
    if shape == 'chain3':
        steps['mid'] = GTag({'tag': 'mid'})
        flow = {'base': [], 'mid': [('base',)], 'derived': [('mid',)]}
    try:
        eng = Engine(processes={'del': GStepDeleter()}, steps={'box': steps}, flow={'box': flow},
                     topology={'del': {'box': ('box',)}, 'box': {k: {'v': ('v',)} for k in steps}}, display_info=False, emitter='null')
        L.CUR.engine = eng
        eng.update(4)
    except Exception as e:
        return ['scenario raised %s: %s' % (type(e).__name__, str(e)[:160])]
    fails = []
    for tag in steps:
        times = [t for g, t in GTAG_RUNS if g == tag]
        want = [0, 1.0, 2.0, 3.0, 4.0] if tag != 'derived' else [0, 1.0]
        if times != want:
            fails.append('step %s ran at %s; it is in the hierarchy for the phases at %s (only `derived` was deleted, at t=2)' % (tag, times, want))
    return fails[:3]


def jsonable_keys(d):
    """nested dict with leaves replaced by their class name (processes / steps are compared by place and kind)"""
    if isinstance(d, dict):
        return {k: jsonable_keys(v) for k, v in d.items()}
    return type(d).__name__


def check_generated(case):
    """steps that join (or exist) through structural updates run in every later step phase, in the documented order:
    legacy derivers one at a time in declaration order (so z == y + 1 == 2x + 1 after every phase), a flow chain likewise,
    two steps of one layer see the same snapshot (z lags: z == previous y + 1)"""
    fails = []
    script = {int(k): v for k, v in case['script'].items()}
    first = agent_spec('a0', case['a0'])
    kw = {}
    if 'steps' in first:
        kw['steps'] = {'agents': {'a0': first['steps']}}
    if 'flow' in first:
        kw['flow'] = {'agents': {'a0': first['flow']}}
    try:
        comp = None
        if case.get('via_composite'):
            # the engine is built from a Composite (whose flow may be empty at construction): what the engine publishes is
            # also written back into that Composite
            from vivarium.core.composer import Composite
            comp = Composite({'processes': {'spawner': GSpawner({'script': script}), 'agents': {'a0': first['processes']}},
                              'topology': {'spawner': {'agents': ('agents',)}, 'agents': {'a0': first['topology']}},
                              'steps': kw.get('steps', {}), 'flow': kw.get('flow', {})})
            eng = Engine(composite=comp, display_info=False, emitter='null')
        else:
            eng = Engine(processes={'spawner': GSpawner({'script': script}), 'agents': {'a0': first['processes']}},
                         topology={'spawner': {'agents': ('agents',)}, 'agents': {'a0': first['topology']}},
                         display_info=False, emitter='null', **kw)
        styles = {'a0': case['a0']}
        born = {'a0': 0}
        prev_y = {}
        prev_c = {}
        last_x = {}
        for tick in range(1, case['ticks'] + 1):
            for op in script.get(tick, []):
                if op[0] == 'generate':
                    styles[op[1]] = op[2]
                    born[op[1]] = tick
            eng.update(1)
            agents = eng.state.get_value().get('agents') or {}
            for op in script.get(tick, []):
                if op[0] == 'delete' and op[1] in agents:
                    fails.append('tick %d: deleted agent %s still exists' % (tick, op[1]))
                if op[0] == 'delete':
                    styles.pop(op[1], None)
            for name, style in list(styles.items()):
                if style.startswith('flow-divider') and name not in agents and name + '0' in agents and name + '1' in agents:
                    styles.pop(name)
                    for dn in (name + '0', name + '1'):
                        styles[dn] = 'flow-chain'      # the daughters carry the same chain double -> succ
                        last_x[dn] = agents[dn]['v']['x']
                    continue
                if style.startswith('flow-divider') and name in agents and agents[name]['v']['x'] >= 3:
                    fails.append('tick %d: agent %s should have divided (x=%r)' % (tick, name, agents[name]['v']['x']))
                if style in ('legacy-reaper', 'flow-reaper') and name not in agents:
                    styles.pop(name)          # it died (checked below: only when its x had reached the threshold)
                    if last_x.get(name, 0) + 1 < 2:
                        fails.append('tick %d: agent %s died before its x reached the threshold' % (tick, name))
                    continue
                if name not in agents:
                    fails.append('tick %d: agent %s is missing' % (tick, name))
                    continue
                last_x[name] = agents[name]['v']['x']
                if style in ('legacy-reaper', 'flow-reaper') and agents[name]['v']['x'] >= 2:
                    fails.append('tick %d: agent %s should have removed itself (x=%r)' % (tick, name, agents[name]['v']['x']))
                v = agents[name]['v']
                x, y, z = v['x'], v['y'], v['z']
                if y != 2 * x:
                    fails.append('tick %d: agent %s (%s): y=%r but x=%r: its step `double` did not run in this phase'
                                 % (tick, name, style, y, x))
                if style == 'flow-layer':
                    want = prev_y.get(name, 0) + 1 if (name in prev_y) else None
                    if want is not None and z != want:
                        fails.append('tick %d: agent %s (one layer): z=%r, expected %r (the y of the previous phase + 1: '
                                     'steps of one layer see one snapshot)' % (tick, name, z, want))
                elif z != y + 1:
                    fails.append('tick %d: agent %s (%s): z=%r but y=%r: `succ` must run after `double` in every phase'
                                 % (tick, name, style, z, y))
                prev_y[name] = y
                if 'c' in v:
                    if name in prev_c and v['c'] != prev_c[name] + 1:
                        fails.append('tick %d: agent %s: its counting step ran %d times in this phase (c %r -> %r)'
                                     % (tick, name, v['c'] - prev_c[name], prev_c[name], v['c']))
                    prev_c[name] = v['c']
            for gone in [n for n in prev_c if n not in styles]:
                prev_c.pop(gone)
        if comp is not None and not fails:
            def strip(d):
                if isinstance(d, dict):
                    out = {k: strip(v) for k, v in d.items()}
                    return {k: v for k, v in out.items() if not (isinstance(v, dict) and not v)}
                return d
            want_flow = strip(eng.state.get_flow() or {})
            for part, got in (('flow', strip(comp['flow'])), ('engine.flow', strip(eng.flow))):
                if got != want_flow:
                    fails.append('after the history the %s published for the Composite the engine was built from is %r, the '
                                 'hierarchy holds %r' % (part, got, want_flow))
    except Exception as e:
        fails.append('engine raised %s: %s' % (type(e).__name__, str(e)[:200]))
    return fails[:3]


def gen_generated(rng):
    script = {}
    names = ['a1', 'a2', 'a3']
    alive = []
    for tick in (1, 2, 3, 4):
        ops = []
        if names and rng.random() < 0.6:
            n = names.pop(0)
            ops.append(['generate', n, rng.choice(GEN_STYLES)])
            alive.append(n)
        elif alive and rng.random() < 0.3:
            ops.append(['delete', alive.pop(0)])
        if ops:
            script[str(tick)] = ops
    return {'a0': rng.choice(GEN_STYLES), 'script': script, 'ticks': 6, 'via_composite': rng.random() < 0.5}


def check_c04(scn, n_perms):
    """identical emitted trajectory under permutation of the listing order"""
    fails = [f for f in check_c05(scn) if ('saw' in f or 'shown' in f or 'different states' in f)]
    L.instrument()
    ref = None
    for p in range(n_perms):
        L.new_trace()
        try:
            eng, base = build(scn, perm=None if p == 0 else p)
            eng.update(3)
        except Exception as e:
            return ['engine raised %s: %s (permutation %d)' % (type(e).__name__, str(e)[:200], p)]
        data = eng.emitter.get_data()
        traj = json.dumps(data, sort_keys=True, default=repr)
        # snapshot clause: processes invoked at the same instant saw the same committed state
        by_time = {}
        for e in LOG:
            if e[0] == 'proc':
                by_time.setdefault(e[3], []).append(e[4])
        for t, sts in by_time.items():
            for s in sts[1:]:
                if s != sts[0]:
                    fails.append('processes started together at t=%s were shown different states: %r vs %r' % (t, sts[0], s))
        if ref is None:
            ref = traj
        elif traj != ref:
            fails.append('permutation %d of the listing order changes the emitted trajectory' % p)
            break
    return fails[:3]


def main():
    ap = argparse.ArgumentParser()
    ap.add_argument('--prop', required=True)
    ap.add_argument('--tier', default='quick'); ap.add_argument('--seed', type=int, default=0)
    ap.add_argument('--out', default='out/replays'); ap.add_argument('--replay', default=None)
    a = ap.parse_args()
    n_perms = 6 if a.tier == 'quick' else 24
    if a.replay:
        rec = json.load(open(a.replay))
        scn = rec['scenario']
        if rec.get('kind') == 'generated':
            fails = check_generated(scn)
        elif rec.get('kind') == 'leafdelete':
            fails = check_leaf_step_delete(scn['leaf_delete'])
        else:
            fails = check_c05(scn) if a.prop in ('C05', 'C07', 'C10', 'C09') else check_c04(scn, n_perms)
        L.emit_result({'status': 'reproduced' if fails else 'not-reproduced', 'failed': fails})
        return
    n = {'quick': 120, 'thorough': 3000}[a.tier]
    rng = random.Random('steps-%s-%d' % (a.prop, a.seed))
    evaluations = 0; distinct = set(); failures = []; samples = []
    for i in range(n):
        scn = json.loads(json.dumps(gen_dag(rng, a.tier)))
        evaluations += 1
        fails = check_c05(scn) if a.prop in ('C05', 'C07', 'C10', 'C09') else check_c04(scn, n_perms)
        if any(scn['deps'].values()):
            distinct.add(json.dumps(scn, sort_keys=True))
        if len(samples) < 2:
            samples.append({'deps': scn['deps'], 'derivers': scn['derivers'], 'nested': scn['nested'], 'structural': scn['structural']})
        if fails:
            rp = L.write_replay(a.out, a.prop, 'dag%d' % i, scn, fails, extra={'driver': 'bounded.steps'})
            failures.append({'id': '%s.bounded.flow#%d: %s' % (a.prop, i, fails[0][:260]), 'replay': rp})
            if len(failures) >= 3:
                break
    # steps that join the simulation through structural updates (C05: order in every later phase; C04: one snapshot per layer)
    gcases = [{'a0': 'legacy-steps', 'script': {'1': [['generate', 'a1', st]]}, 'ticks': 5} for st in GEN_STYLES]
    gcases += [{'a0': 'legacy-reaper', 'script': {'1': [['generate', 'a1', st], ['generate', 'a2', 'legacy-steps']]}, 'ticks': 5}
               for st in ('legacy-steps', 'legacy-reaper', 'flow-chain')]
    gcases += [{'a0': 'legacy-steps', 'script': {'1': [['generate', 'a1', 'flow-chain']]}, 'ticks': 4, 'via_composite': True},
               {'a0': 'legacy-in-processes', 'script': {'2': [['generate', 'a1', 'flow-layer']]}, 'ticks': 4, 'via_composite': True}]
    gcases += [{'a0': 'legacy-steps', 'script': {'1': [['generate', 'a1', 'legacy-steps']], '2': [['delete', 'a1']], '3': [['generate', 'a1', 'legacy-steps']]}, 'ticks': 6},
               {'a0': 'flow-chain', 'script': {'1': [['delete', 'a0']], '2': [['generate', 'a0', 'legacy-steps']]}, 'ticks': 5}]
    gcases += [{'a0': 'flow-reaper', 'script': {}, 'ticks': 5}, {'a0': 'flow-chain', 'script': {'1': [['generate', 'a1', 'flow-reaper']]}, 'ticks': 6}]
    gcases += [{'a0': 'flow-divider-nested', 'script': {}, 'ticks': 6}, {'a0': 'flow-chain', 'script': {'1': [['generate', 'a1', 'flow-divider-nested']]}, 'ticks': 6}]
    gcases += [{'a0': 'flow-divider', 'script': {}, 'ticks': 5}, {'a0': 'legacy-steps', 'script': {'1': [['generate', 'a1', 'flow-divider']]}, 'ticks': 6}]
    gcases += [gen_generated(rng) for _ in range(20 if a.tier == 'quick' else 400)]
    for gi, case in enumerate(gcases):
        if len(failures) >= 3:
            break
        evaluations += 1
        fails = check_generated(case)
        distinct.add(json.dumps(case, sort_keys=True))
        if fails:
            rp = L.write_replay(a.out, a.prop, 'gen%d' % gi, case, fails, kind='generated', extra={'driver': 'bounded.steps'})
            failures.append({'id': '%s.bounded.generated#%d: %s' % (a.prop, gi, fails[0][:260]), 'replay': rp})
    if a.prop in ('C10', 'C05', 'C09'):
        for shape in ('pair', 'chain3'):
            if len(failures) >= 3:
                break
            evaluations += 1
            fails = check_leaf_step_delete(shape)
            if fails:
                rp = L.write_replay(a.out, a.prop, 'leafdelete-' + shape, {'leaf_delete': shape}, fails, kind='leafdelete', extra={'driver': 'bounded.steps'})
                failures.append({'id': '%s.bounded.leaf-step-delete[%s]: %s' % (a.prop, shape, fails[0][:260]), 'replay': rp})
    L.emit_result({'status': 'violated' if failures else 'ok', 'evaluations': evaluations * (1 if a.prop == 'C05' else n_perms),
                   'distinct_nontrivial': len(distinct), 'failures': failures, 'samples': samples,
                   'rule': 'seeded random flow DAGs (+derivers, nesting, structural variant); non-trivial = at least one '
                           'dependency edge; distinct by scenario'})


if __name__ == '__main__':
    main()
