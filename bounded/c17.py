"""Bounded driver for C17 (Store navigation laws on real Store trees).

LABEL: bounded stand-in.  Bound: every tree shape over keys {a,b,c} with depth <= 3 (seeded sample of
shapes, exhaustive node pairs within a tree), relative paths of length <= 4 over the keys plus '..'.
Laws: root.get_path(n.path_for()) is n;  a.get_path(a.path_to(b)) is b;  walking a relative path p from
`here` (never climbing above the root) reaches root.get_path(normalize_path(here.path_for() + p)).
"""
import argparse, json, random, itertools, os, sys
from bounded import lib as L
from vivarium.core.store import Store
from vivarium.library.topology import normalize_path

KEYS = ['a', 'b', 'c']


def gen_schema(rng, depth):
    if depth == 0 or rng.random() < 0.3:
        return {'_default': rng.choice([0, 1, 2])}
    out = {}
    for k in KEYS:
        if rng.random() < 0.6:
            out[k] = gen_schema(rng, depth - 1)
    return out or {'_default': 0}


def nodes(store):
    out = [store]
    for ch in store.inner.values():
        out.extend(nodes(ch))
    return out


def climbs_above_root(here_path, p):
    depth = len(here_path)
    for s in p:
        depth = depth - 1 if s == '..' else depth + 1
        if depth < 0:
            return True
    return False


def check_tree(schema, rng, n_paths):
    fails = []
    glob_rng = random.Random(rng.random())
    gname, sub = None, None
    if '_default' not in schema and glob_rng.random() < 0.6:
        sub = gen_schema(glob_rng, 2)
        gname = glob_rng.choice(['G', 'agents'])
        schema = dict(schema, **{gname: {'*': sub}})
    root = Store(schema)
    # graft a detached subtree below the root with add_node (the primitive behind _move), under a path of 1..3 segments:
    # afterwards the parent pointers must describe the place where the subtree really sits
    if rng.random() < 0.5:
        graft = Store(gen_schema(rng, 2) or {'g': {'_default': 1}})
        gp = tuple(rng.sample(['m1', 'm2', 'm3'], rng.choice([1, 2, 3])))
        try:
            root.add_node(gp, graft)
        except Exception as e:
            fails.append('add_node(%s) raised %s: %s' % (gp, type(e).__name__, str(e)[:100]))
    # children created from a glob ('*') sub-schema when a value with new keys is set (initial state, add, divide):
    # they are created by Store.set_value / generate_value, not by the schema walk, and must hang in the tree like any other
    if gname is not None:
        rng_, rng = rng, glob_rng
        try:
            gnode = root.get_path((gname,))

            def val(sch):
                if '_default' in sch:
                    return rng.choice([3, 4, 5])
                return {k: val(v) for k, v in sch.items()}
            gnode.set_value({'n1': val(sub), 'n2': val(sub)})
            gnode.generate_value({'n3': val(sub)})
            if len(gnode.inner) < 3:
                fails.append('glob node %s has children %s after set_value/generate_value of n1, n2, n3' % (gname, list(gnode.inner)))
        except Exception as e:
            fails.append('glob set_value raised %s: %s' % (type(e).__name__, str(e)[:100]))
        rng = rng_
    # a subtree that is re-attached under ANOTHER key (add_node under the new name, delete of the old one) after its nodes
    # have been asked for their paths: the answers follow the tree, not what was answered before
    ren_rng = random.Random(rng.random())
    if ren_rng.random() < 0.5:
        allns = nodes(root)
        for n in allns:
            n.path_for()
        cands = [n for n in allns if n.outer is not None]
        if cands:
            n = ren_rng.choice(cands)
            parent = n.outer
            old = [k for k, v in parent.inner.items() if v is n][0]
            newp = ren_rng.choice([('renamed',), ('r1', 'renamed'), tuple(parent.path_for()) + ('renamed',)])
            try:
                root.add_node(newp, n)
                parent.delete(old)
            except Exception as e:
                fails.append('re-attaching %s as %s raised %s: %s' % (old, newp, type(e).__name__, str(e)[:100]))
    ns = nodes(root)
    for n in ns:
        for k, ch in n.inner.items():
            if ch.outer is not n:
                fails.append('child %s of %s has outer %s' % (k, n.path_for(), ch.outer.path_for() if ch.outer else None))
    for n in ns:
        try:
            back = root.get_path(n.path_for())
        except Exception as e:
            fails.append('root.get_path(n.path_for()) raised for path_for() == %s: %s' % (n.path_for(), str(e)[:80]))
            return fails, len(ns), 0
        if back is not n:
            fails.append('root.get_path(n.path_for()) is not n for n at %s' % (n.path_for(),))
        if n.top() is not root:
            fails.append('top() of %s is not the root' % (n.path_for(),))
    for a, b in itertools.product(ns, ns):
        p = a.path_to(b)
        try:
            r = a.get_path(p)
        except Exception as e:
            fails.append('a.get_path(a.path_to(b)) raised %s for a=%s b=%s path=%s' % (type(e).__name__, a.path_for(), b.path_for(), p))
            continue
        if r is not b:
            fails.append('a.path_to(b)=%s from a=%s reaches %s, not b=%s' % (p, a.path_for(), r.path_for(), b.path_for()))
    count = 0
    for _ in range(n_paths):
        here = rng.choice(ns)
        p = tuple(rng.choice(KEYS + ['..', '..']) for _ in range(rng.choice([0, 1, 2, 3, 4])))
        if climbs_above_root(here.path_for(), p):
            continue
        lex = normalize_path(here.path_for() + p)
        try:
            want = root.get_path(lex)
        except Exception:
            want = None
        try:
            got = here.get_path(p)
        except Exception:
            got = None
        # walking may fail earlier than the lexical form (a missing intermediate that is later cancelled by '..')
        if got is not None and want is not got:
            fails.append('walk of %s from %s reaches %s; lexical normal form %s reaches %s'
                         % (p, here.path_for(), got.path_for(), lex, want.path_for() if want else None))
        count += 1
    return fails, len(ns), count


PORT_CASES = [{'depth': d, 'up': u, 'decoy': dec} for d in (1, 2, 3) for u in (1, 2, 3, 4) if u <= d + 1 for dec in (False, True)]


def check_port_paths(case):
    """paths that run THROUGH a process port: root.get_path(<process> + (port, variable)) is the node that port variable is wired to,
    also when one variable of the port is re-wired relative to the port's node with a path that climbs ('..') above the process"""
    from vivarium.core.engine import Engine
    from vivarium.core.process import Process

    class P(Process):
        defaults = {'timestep': 1.0}

        def ports_schema(self):
            return {'port': {'var_a': {'_default': 1}, 'var_b': {'_default': 2}}}

        def next_update(self, timestep, states):
            return {}
    d, up = case['depth'], case['up']
    levels = tuple('level%d' % i for i in range(d))
    rewire = ('..',) * up + ('y',)
    topo = {'port': {'_path': ('local',), 'var_a': rewire}}
    procs, tp = {'proc': P()}, {'proc': topo}
    for name in reversed(levels):
        procs, tp = {name: procs}, {name: tp}
    target = normalize_path(levels + ('local',) + rewire)
    init = {}
    if case['decoy'] and d >= 1:
        # a node with the same name one level off the target, so that a wrong resolution lands somewhere instead of failing
        node = init
        for name in levels[:-1]:
            node = node.setdefault(name, {})
        node.setdefault(levels[-1], {})['y'] = 111 if levels[:-1] + (levels[-1], 'y') != target else None
        if node[levels[-1]]['y'] is None:
            del node[levels[-1]]['y']
    try:
        eng = Engine(processes=procs, topology=tp, initial_state=init, display_info=False, emitter='null')
        root = eng.state
        want = root.get_path(target)
        got = root.get_path(levels + ('proc', 'port', 'var_a'))
        gb = root.get_path(levels + ('proc', 'port', 'var_b'))
        wb = root.get_path(levels + ('local', 'var_b'))
    except Exception as e:
        return ['depth %d, variable re-wired to %s: %s: %s' % (d, rewire, type(e).__name__, str(e)[:140])]
    fails = []
    if got is not want:
        fails.append('depth %d: the path through the port reaches %s, the port variable is wired to %s by %r'
                     % (d, got.path_for(), want.path_for(), topo))
    if gb is not wb:
        fails.append('depth %d: port/var_b reached through the process is %s, it is wired to %s' % (d, gb.path_for(), wb.path_for()))
    return fails


def main():
    ap = argparse.ArgumentParser()
    ap.add_argument('--tier', default='quick'); ap.add_argument('--seed', type=int, default=0)
    ap.add_argument('--out', default='out/replays'); ap.add_argument('--replay', default=None)
    a = ap.parse_args()
    if a.replay:
        d = json.load(open(a.replay))
        if 'port_case' in d['scenario']:
            fails = check_port_paths(d['scenario']['port_case'])
            L.emit_result({'status': 'reproduced' if fails else 'not-reproduced', 'failed': fails[:5]})
            return
        fails, _, _ = check_tree(d['scenario']['schema'], random.Random(d['scenario']['seed']), d['scenario']['n_paths'])
        L.emit_result({'status': 'reproduced' if fails else 'not-reproduced', 'failed': fails[:5]})
        return
    rng = random.Random('c17-%d' % a.seed)
    n_trees = 60 if a.tier == 'quick' else 1500
    n_paths = 150 if a.tier == 'quick' else 400
    evaluations = 0; distinct = set(); failures = []; samples = []
    for i in range(n_trees):
        schema = gen_schema(rng, 3)
        sd = rng.randrange(10 ** 9)
        fails, n_nodes, n_walks = check_tree(schema, random.Random(sd), n_paths)
        evaluations += n_nodes * n_nodes + n_walks
        if n_nodes >= 3:
            distinct.add(json.dumps(schema, sort_keys=True))
        if len(samples) < 2:
            samples.append({'schema': schema, 'nodes': n_nodes})
        if fails:
            rp = L.write_replay(a.out, 'C17', 'tree%d' % i, {'schema': schema, 'seed': sd, 'n_paths': n_paths}, fails,
                                extra={'driver': 'bounded.c17'})
            failures.append({'id': 'C17.bounded.store-navigation#%d: %s' % (i, fails[0][:160]), 'replay': rp})
            if len(failures) >= 3:
                break
    for pi, case in enumerate(PORT_CASES):
        if len(failures) >= 3:
            break
        evaluations += 1
        distinct.add('port-%d' % pi)
        fails = check_port_paths(case)
        if fails:
            rp = L.write_replay(a.out, 'C17', 'port%d' % pi, {'port_case': case}, fails, extra={'driver': 'bounded.c17'})
            failures.append({'id': 'C17.bounded.port-path#%d: %s' % (pi, fails[0][:200]), 'replay': rp})
    L.emit_result({'status': 'violated' if failures else 'ok', 'evaluations': evaluations,
                   'distinct_nontrivial': len(distinct), 'failures': failures, 'samples': samples,
                   'rule': 'random Store trees (depth<=3, keys a,b,c); all ordered node pairs for path_to, random relative '
                           'paths for the walk/normalise law; non-trivial = tree with >= 3 nodes; distinct by schema'})


if __name__ == '__main__':
    main()
