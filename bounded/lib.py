"""Shared machinery of the bounded scenario drivers (runs under /venv/bin/python against /repo).

LABEL: bounded stand-in.  Nothing in here is ever counted as proved.

* `instrument()` attaches run-time monitors to the real engine by monkey-patching inside this
  process only (no edit of /repo): every invocation, application, step phase, emit and clock
  assignment is logged to the current Trace.
* `Acc` is a configurable user process whose calls are logged from the *user* side (arguments of
  next_update / calculate_timestep / update_condition, engine clock at that moment).
* a logging updater `verif_acc` (registered like any user updater) records every applied leaf update.
* scenario descriptions are plain JSON so that a failing scenario is its own replay file.
"""
import copy
import itertools
import json
import math
import os
import random
import signal
import sys
import time

HERE = os.path.dirname(os.path.dirname(os.path.abspath(__file__)))
if HERE not in sys.path:
    sys.path.insert(0, HERE)

from vivarium.core import engine as E          # noqa: E402
from vivarium.core import store as ST          # noqa: E402
from vivarium.core.engine import Engine        # noqa: E402
from vivarium.core.process import Process, Step, Deriver   # noqa: E402
from vivarium.core.registry import updater_registry    # noqa: E402

TOL = 1e-9


class Trace:
    def __init__(self):
        self.events = []
        self.engine = None
        self.calls = []          # user-side log of process calls
        self.applied = []        # updater-side log of applied leaf updates

    def log(self, *ev):
        self.events.append(ev)


CUR = Trace()
_instrumented = False


def new_trace():
    global CUR
    CUR = Trace()
    return CUR


def gt():
    e = CUR.engine
    return getattr(e, 'global_time', None) if e is not None else None


def instrument():
    """Monkey-patch monitors into the real engine (idempotent)."""
    global _instrumented
    if _instrumented:
        return
    _instrumented = True
    orig_init = Engine.__init__
    orig_process_update = E._process_update
    orig_defer_get = E.Defer.get
    orig_apply = Engine.apply_update
    orig_emit = Engine._emit_store_data
    orig_emit_conf = Engine._emit_configuration
    orig_run_steps = Engine.run_steps
    orig_run_for = Engine.run_for
    orig_send = Engine._send_updates
    orig_views = ST.Store.build_topology_views

    def init(self, *a, **k):
        CUR.engine = self
        CUR.log('init-begin')
        orig_init(self, *a, **k)
        CUR.log('init-end', self.global_time)

    def setattr_(self, name, value):
        if name == 'global_time':
            CUR.log('clock', getattr(self, 'global_time', None), value)
        object.__setattr__(self, name, value)

    def process_update(path, process, store, states, interval):
        eng = CUR.engine
        start = eng.front[path]['time'] if (eng is not None and path in getattr(eng, 'front', {})) else None
        r = orig_process_update(path, process, store, states, interval)
        CUR.log('invoke', tuple(path), interval, start, gt(), id(r[0]), bool(process.is_step()) if not
                isinstance(process, E.ParallelProcess) else None)
        return r

    def defer_get(self):
        r = orig_defer_get(self)
        CUR.log('get', id(self), gt())
        return r

    def apply(self, update, state):
        CUR.log('apply-begin', gt())
        r = orig_apply(self, update, state)
        CUR.log('apply-end', gt(), bool(r))
        return r

    def emit(self):
        CUR.log('emit', self.global_time)
        return orig_emit(self)

    def emit_conf(self):
        CUR.log('emit-config')
        return orig_emit_conf(self)

    def run_steps(self):
        CUR.log('steps-begin', gt())
        r = orig_run_steps(self)
        CUR.log('steps-end', gt())
        return r

    def run_for(self, interval, force_complete=False):
        CUR.log('run_for-begin', self.global_time, interval, force_complete)
        r = orig_run_for(self, interval, force_complete)
        CUR.log('run_for-end', self.global_time)
        return r

    def send(self, update_tuples):
        CUR.log('send-begin', gt(), len(update_tuples))
        r = orig_send(self, update_tuples)
        CUR.log('send-end', gt())
        return r

    def views(self):
        if self.outer is None:
            CUR.log('rebuild-views', gt())
        return orig_views(self)

    Engine.__init__ = init
    Engine.__setattr__ = setattr_
    E._process_update = process_update
    E.Defer.get = defer_get
    Engine.apply_update = apply
    Engine._emit_store_data = emit
    Engine._emit_configuration = emit_conf
    Engine.run_steps = run_steps
    Engine.run_for = run_for
    Engine._send_updates = send
    ST.Store.build_topology_views = views

    def verif_acc(current, update):
        # update is (tag, amount): log and accumulate the amount
        tag, amount = update
        CUR.applied.append((tag, amount, gt()))
        return current + amount
    if updater_registry.access('verif_acc') is None:
        updater_registry.register('verif_acc', verif_acc)


class Watchdog:
    def __init__(self, seconds):
        self.seconds = seconds

    def __enter__(self):
        def alarm(*_):
            raise TimeoutError('watchdog: no termination within %ss' % self.seconds)
        self.old = signal.signal(signal.SIGALRM, alarm)
        signal.alarm(self.seconds)

    def __exit__(self, *a):
        signal.alarm(0)
        signal.signal(signal.SIGALRM, self.old)
        return False


class Acc(Process):
    """Accumulating user process with scripted timesteps / conditions; logs its own calls.

    parameters:
      name, timestep, dts (optional script of timesteps, cycled), cond: 'always'|'never'|'flag'|'alt'|[bools],
      amount: 'one' | 'dt' | 'index'
    writes (tag, amount) to s/x_<name> (logging updater), dt to s/clock_<name> and amount to s/total.
    """
    defaults = {'timestep': 1.0, 'dts': None, 'cond': 'always', 'amount': 'index', 'cyclic': False}

    def __init__(self, parameters=None):
        super().__init__(parameters)
        self.n_calls = 0
        self.n_ts = 0
        self.n_cond = 0

    def ports_schema(self):
        n = self.parameters['name']
        return {'s': {
            'x_' + n: {'_default': 0, '_updater': 'verif_acc', '_emit': True},
            'clock_' + n: {'_default': 0.0, '_updater': 'accumulate', '_emit': True},
            'total': {'_default': 0, '_updater': 'accumulate', '_emit': True},
            'flag': {'_default': False, '_updater': 'set', '_emit': True}}}

    def calculate_timestep(self, states):
        dts = self.parameters['dts']
        if dts:
            # scripted adaptive timestep: entries in order, then the last one for ever
            # ('cyclic' scripts wrap around and can therefore shrink again)
            if self.parameters.get('cyclic'):
                dt = dts[self.n_ts % len(dts)]
            else:
                dt = dts[min(self.n_ts, len(dts) - 1)]
        else:
            dt = self.parameters['timestep']
        self.n_ts += 1
        eng = CUR.engine
        front = None
        if eng is not None:
            f = getattr(eng, 'front', {}).get((self.parameters['name'],))
            front = f['time'] if f else None
        CUR.calls.append(('timestep', self.parameters['name'], dt, gt(), front))
        return dt

    def update_condition(self, timestep, states):
        c = self.parameters['cond']
        k = self.n_cond
        self.n_cond += 1
        if c == 'always':
            r = True
        elif c == 'never':
            r = False
        elif c == 'flag':
            r = bool(states['s']['flag'])
        elif c == 'alt':
            r = (k % 2 == 1)
        else:
            r = bool(c[k % len(c)])
        CUR.calls.append(('condition', self.parameters['name'], timestep, r, gt()))
        return r

    def next_update(self, timestep, states):
        n = self.parameters['name']
        k = self.n_calls
        self.n_calls += 1
        mode = self.parameters['amount']
        amount = 1 if mode == 'one' else (timestep if mode == 'dt' else k + 1)
        CUR.calls.append(('next_update', n, timestep, gt(), amount, copy.deepcopy(states)))
        return {'s': {'x_' + n: ((n, k), amount), 'clock_' + n: timestep, 'total': amount}}


class Flipper(Process):
    """Sets the shared flag at scripted ticks (drives the 'flag' condition of Acc processes)."""
    defaults = {'timestep': 1.0, 'script': [False, True]}

    def __init__(self, parameters=None):
        super().__init__(parameters)
        self.k = 0

    def ports_schema(self):
        return {'s': {'flag': {'_default': False, '_updater': 'set', '_emit': True}}}

    def next_update(self, timestep, states):
        s = self.parameters['script']
        v = s[self.k % len(s)]
        self.k += 1
        return {'s': {'flag': v}}


# ---- schedule scenarios -------------------------------------------------------------------------

TIMESTEPS = [0.25, 0.5, 0.75, 1, 1.25, 2, 3]
GRID1 = [0.1, 0.2, 0.3, 0.5, 0.7, 1.0, 1.3]
CONDS = ['always', 'always', 'always', 'never', 'flag', 'alt']
RUNS = [0.5, 1, 2, 3, 10]


def gen_schedule(rng, tier, precision=None, allow_shrink=False):
    n = rng.choice([1, 2, 2, 3] if tier == 'quick' else [1, 2, 2, 3, 3, 4])
    procs = []
    grid = GRID1 if precision == 1 else TIMESTEPS
    any_flag = False
    for i in range(n):
        p = {'name': 'p%d' % i, 'timestep': rng.choice(grid), 'cond': rng.choice(CONDS),
             'parallel': False}
        if rng.random() < 0.25:
            k = rng.choice([2, 3])
            dts = [rng.choice(grid) for _ in range(k)]
            if allow_shrink and rng.random() < 0.5:
                p['cyclic'] = True
            else:
                dts = sorted(dts)   # non-shrinking scripts cannot reach the known finding F-C03-shrink
            p['dts'] = dts
        if p['cond'] == 'flag':
            any_flag = True
        procs.append(p)
    flipper = None
    if any_flag:
        flipper = {'timestep': rng.choice([1, 2]), 'script': [rng.random() < 0.5 for _ in range(rng.choice([2, 3]))]}
    calls = []
    for _ in range(rng.choice([1, 1, 2, 3])):
        calls.append({'interval': rng.choice(RUNS if precision is None else [0.1, 0.2, 0.3, 0.5, 0.7, 1, 2, 3]),
                      'force': rng.random() < 0.5})
    calls[-1]['force'] = True if rng.random() < 0.7 else calls[-1]['force']
    if rng.random() < 0.15:
        # close a caller-managed loop with update(0): forced completion at the current time
        calls.insert(rng.randrange(1, len(calls) + 1), {'interval': 0, 'force': True})
    order = list(range(n))
    rng.shuffle(order)
    scn = {'procs': procs, 'flipper': flipper, 'calls': calls, 'precision': precision,
           'order': order, 'emit_step': 1}
    if rng.random() < 0.2:
        scn['t0'] = rng.choice([5, 2.5, 100] if precision is None else [5, 2.5])   # initial_global_time
    return scn


def edge_schedules():
    """Systematic family (enumerated completely): a slow always-on process next to a fast conditional
    one, driven by short caller-managed run_for calls -- exercises quiet fronts, deferral across call
    boundaries, forced truncation and the three-way advance of run_for."""
    out = []
    conds = ['always', 'alt', [False, True], [False, False, True], [True, False], 'never']
    callseqs = [[(0.5, False), (0.5, False), (2, True)], [(2, False), (2, False)], [(1, False), (3, True)],
                [(0.5, False), (1, False), (0.5, True)], [(2, True), (1, False), (1, True)], [(3, False), (0.5, True)],
                [(3, False), (0, True), (2, True)], [(0.5, False), (0, True)]]
    for slow in (2, 3):
        for fast in (0.25, 1):
            for cond in conds:
                for cs in callseqs:
                    for order in ([0, 1], [1, 0]):
                        out.append({'procs': [{'name': 'p0', 'timestep': slow, 'cond': 'always', 'parallel': False},
                                              {'name': 'p1', 'timestep': fast, 'cond': cond, 'parallel': False}],
                                    'flipper': None, 'calls': [{'interval': i, 'force': f} for i, f in cs],
                                    'precision': None, 'order': order, 'emit_step': 1})
    for sc in list(out[::7]):
        sc = dict(sc)
        sc['t0'] = 5                       # the same family started at initial_global_time = 5
        out.append(sc)
    return out


def precision_edge_schedules():
    """Systematic family for global_time_precision = 1: one or two processes with timesteps on the 10^-1 grid and two
    calls with fractional lengths, so that calls start at non-zero grid times whose float sums are inexact
    (0.2 + 0.1, 0.3 + 0.6, 0.7 + 0.1, ...) and the clock makes jumps larger than its current value."""
    out = []
    grid = [0.1, 0.2, 0.3, 0.6, 0.7, 0.9]
    for dt in (0.2, 0.3, 0.6, 0.7, 0.9):
        for a_ in grid:
            for b_ in grid:
                for f1 in (False, True):
                    out.append({'procs': [{'name': 'p0', 'timestep': dt, 'cond': 'always', 'parallel': False}],
                                'flipper': None, 'calls': [{'interval': a_, 'force': f1}, {'interval': b_, 'force': True}],
                                'precision': 1, 'order': [0], 'emit_step': 1})
    for dts in ([0.2, 0.7, 0.9], [0.1, 0.6], [0.3, 0.9, 0.2]):
        for other in (0.9, 0.3):
            for length in (1.8, 0.9, 1.2):
                out.append({'procs': [{'name': 'p0', 'timestep': dts[0], 'dts': sorted(dts), 'cond': 'always', 'parallel': False},
                                      {'name': 'p1', 'timestep': other, 'cond': 'always', 'parallel': False}],
                            'flipper': None, 'calls': [{'interval': length, 'force': True}],
                            'precision': 1, 'order': [0, 1], 'emit_step': 1})
    return out


def in_shrink_region(tr):
    """Region of the known finding F-C03-shrink: a process was polled and DEFERRED (its requested step
    overshot the end of the call, so neither its condition nor next_update was consulted), and at its
    next poll it asks for a SHORTER timestep whose end is not ahead of the current global time."""
    last_poll = {}
    for c in tr.calls:
        name = c[1]
        if c[0] == 'timestep':
            prev = last_poll.get(name)
            if prev is not None and c[4] is not None and c[3] is not None:
                if c[2] < prev[2] - TOL and c[4] < c[3] - TOL and c[4] + c[2] <= c[3] + TOL:
                    return True
            last_poll[name] = c
        elif c[0] in ('condition', 'next_update'):
            last_poll.pop(name, None)
    return False


def in_sametime_region(tr):
    """Region of the known finding F-C12-sametime: a forced call of length 0 (update(0)) completes a
    process that was left behind at a time for which a history row was already emitted, so a second row
    for that same time is emitted (the RAM emitter refuses it when the values differ)."""
    seen = set()
    zero = False
    for ev in tr.events:
        if ev[0] == 'run_for-begin':
            zero = (ev[2] == 0 and bool(ev[3]))
        elif ev[0] == 'run_for-end':
            zero = False
        elif ev[0] == 'emit':
            if zero and ev[1] in seen:
                return True
            seen.add(ev[1])
    return False


def build_engine(scn, parallel_names=()):
    procs, topo = {}, {}
    names = [scn['procs'][i]['name'] for i in scn.get('order', range(len(scn['procs'])))]
    byname = {p['name']: p for p in scn['procs']}
    for n in names:
        p = byname[n]
        params = {'name': n, 'timestep': p['timestep'], 'dts': p.get('dts'), 'cond': p['cond'],
                  'amount': p.get('amount', 'index'), 'cyclic': bool(p.get('cyclic'))}
        if n in parallel_names:
            params['_parallel'] = True
        procs[n] = Acc(params)
        topo[n] = {'s': ('s',)}
    if scn.get('flipper'):
        procs['flipper'] = Flipper(dict(scn['flipper']))
        topo['flipper'] = {'s': ('s',)}
    kw = {}
    if scn.get('precision') is not None:
        kw['global_time_precision'] = scn['precision']
    if scn.get('emit_step', 1) != 1:
        kw['emit_step'] = scn['emit_step']
    if scn.get('t0'):
        kw['initial_global_time'] = scn['t0']
    eng = Engine(processes=procs, topology=topo, display_info=False, progress_bar=False, **kw)
    return eng


def run_schedule(scn, parallel_names=(), watchdog=20):
    """Run a schedule scenario on the real engine. Returns (trace, engine, error)."""
    instrument()
    tr = new_trace()
    err = None
    eng = None
    try:
        with Watchdog(watchdog):
            eng = build_engine(scn, parallel_names)
            for c in scn['calls']:
                if c['force']:
                    eng.update(c['interval'])           # the public forced form
                else:
                    eng.run_for(c['interval'], False)
                tr.log('call-end', bool(c['force']), eng.global_time,
                       [(p, a['time'], bool(a['update'])) for p, a in eng.front.items()])
    except TimeoutError as e:
        err = ('hang', str(e))
    except Exception as e:   # noqa
        import traceback
        err = ('exception', '%s: %s' % (type(e).__name__, str(e)[:300]), traceback.format_exc()[-800:])
    finally:
        if eng is not None and parallel_names:
            try:
                eng.end()
            except Exception as e:   # noqa
                err = err or ('exception-in-end', '%s: %s' % (type(e).__name__, e))
    return tr, eng, err


def close(a, b):
    return abs(a - b) <= TOL * max(1.0, abs(a), abs(b))


# ---- oracles over a trace ------------------------------------------------------------------------

def ledger(tr):
    """Tokens issued by _process_update for non-step processes: list of dicts in issue order."""
    toks = {}
    order = []
    for ev in tr.events:
        if ev[0] == 'invoke' and not ev[6]:
            _, path, interval, start, g, tok, _ = ev
            # a Defer object id may be reused after garbage collection: key by (id, serial)
            key = (tok, len(order))
            toks[key] = {'path': path, 'dt': interval, 'start': start, 'invoked_at': g, 'got_at': [],
                         'tok': tok, 'serial': len(order)}
            order.append(key)
        elif ev[0] == 'get':
            _, tok, g = ev
            # latest issued, not yet consumed token with this id
            for key in reversed(order):
                if key[0] == tok:
                    toks[key]['got_at'].append(g)
                    break
    return [toks[k] for k in order]


def check_c01(tr, eng, scn, final_forced):
    """every update applied exactly once, at the end of its interval, in order, never early/late."""
    fails = []
    led = ledger(tr)
    per_path = {}
    for t in led:
        per_path.setdefault(t['path'], []).append(t)
        if t['start'] is None:
            fails.append('token of %s issued without a front entry' % (t['path'],))
            continue
        due = t['start'] + t['dt']
        t['due'] = due
        if len(t['got_at']) > 1:
            fails.append('update of %s issued at %s applied %d times' % (t['path'], t['invoked_at'], len(t['got_at'])))
        if len(t['got_at']) == 1 and not close(t['got_at'][0], due):
            # the forced-truncation case hands dt = end - start, so due is still start+dt
            fails.append('update of %s (interval %s+%s) applied at %s instead of %s'
                         % (t['path'], t['start'], t['dt'], t['got_at'][0], due))
    end_time = eng.global_time if eng is not None else None
    for path, ts in per_path.items():
        alive = eng is not None and path in eng.process_paths
        for a, b in zip(ts, ts[1:]):
            if a['got_at'] and b['got_at'] and a['got_at'][0] > b['got_at'][0] + TOL:
                fails.append('updates of %s applied out of order' % (path,))
            if not a['got_at'] and b is not None and alive:
                fails.append('update of %s issued at %s was overwritten/lost before being applied' % (path, a['invoked_at']))
        last = ts[-1]
        if alive and not last['got_at'] and end_time is not None and last.get('due') is not None \
                and last['due'] <= end_time + TOL:
            fails.append('update of %s due at %s never applied (clock is at %s)' % (path, last['due'], end_time))
    # updater-side: every returned amount shows up exactly once
    returned = {}
    for c in tr.calls:
        if c[0] == 'next_update':
            returned.setdefault(c[1], []).append(c[4])
    applied = {}
    for (tag, amount, g) in tr.applied:
        applied.setdefault(tag[0], []).append((tag[1], amount, g))
    for n, ams in returned.items():
        got = applied.get(n, [])
        idxs = [k for k, _, _ in got]
        if len(set(idxs)) != len(idxs):
            fails.append('an update of %s was applied twice (updater calls %s)' % (n, idxs))
        if idxs != sorted(idxs):
            fails.append('updates of %s reached the updater out of order: %s' % (n, idxs))
        if final_forced and len(got) != len(ams):
            fails.append('process %s returned %d updates but %d were applied after forced completion'
                         % (n, len(ams), len(got)))
        if len(got) > len(ams):
            fails.append('process %s: more applications than returned updates' % n)
    return fails


def check_c02(tr, eng, scn, final_forced):
    """timestep handed == interval covered; intervals contiguous; after forced completion all fronts at global time."""
    fails = []
    led = ledger(tr)
    per_path = {}
    for t in led:
        per_path.setdefault(t['path'], []).append(t)
    for path, ts in per_path.items():
        for t in ts:
            if t['got_at'] and t['start'] is not None:
                covered = t['got_at'][0] - t['start']
                if not close(covered, t['dt']):
                    fails.append('%s was handed timestep %s for an interval of length %s (%s -> %s)'
                                 % (path, t['dt'], covered, t['start'], t['got_at'][0]))
    # user-side: the sum of timesteps handed to an always-on process equals the elapsed time for it
    if eng is not None and final_forced:
        val = eng.state.get_value()['s']
        for p in scn['procs']:
            if p['cond'] == 'always':
                clock = val['clock_' + p['name']]
                if not close(clock, eng.global_time - scn.get('t0', 0)):
                    fails.append('process %s simulated %s time units but %s elapsed' % (p['name'], clock, eng.global_time))
        for path, adv in eng.front.items():
            if not close(adv['time'], eng.global_time):
                fails.append('front of %s at %s after forced completion at %s' % (path, adv['time'], eng.global_time))
            if adv['update']:
                fails.append('front of %s still holds an update after forced completion' % (path,))
    # ... and the same after EVERY update() of the sequence, not only the last one
    for ev in tr.events:
        if ev[0] == 'call-end' and ev[1]:
            for path, t, pending in ev[3]:
                if not close(t, ev[2]) or pending:
                    fails.append('after update() returned at %s: front of %s at %s%s'
                                 % (ev[2], path, t, ' with a pending update' if pending else ''))
    return fails


def check_c03(tr, eng, scn, err):
    """clock monotone, never past the end, lands exactly on start+interval; termination (watchdog)."""
    fails = []
    if err and err[0] == 'hang':
        fails.append('run_for did not terminate: %s' % err[1])
        return fails
    end = None
    start = None
    cur = None
    for ev in tr.events:
        if ev[0] == 'run_for-begin':
            start, interval = ev[1], ev[2]
            end = start + interval
            cur = start
        elif ev[0] == 'clock' and end is not None:
            old, new = ev[1], ev[2]
            if old is not None and new < old - TOL:
                fails.append('clock stepped backwards %s -> %s' % (old, new))
            if new > end + TOL:
                fails.append('clock %s passed the end %s of the requested interval' % (new, end))
            cur = new
        elif ev[0] == 'run_for-end':
            if end is not None and not close(ev[1], end):
                fails.append('run_for returned at %s instead of %s' % (ev[1], end))
            end = None
    # clock seen by user callbacks is monotone too
    last = None
    for c in tr.calls:
        g = c[3] if c[0] in ('timestep', 'next_update') else c[4]
        if last is not None and g is not None and g < last - TOL:
            fails.append('a callback saw the clock go backwards: %s after %s' % (g, last))
        last = g if g is not None else last
    emits = [ev[1] for ev in tr.events if ev[0] == 'emit']
    for a, b in zip(emits, emits[1:]):
        if not b > a:
            fails.append('emit times not strictly increasing: %s then %s' % (a, b))
    p = scn.get('precision')
    if p is not None:
        for t in emits:
            if round(t, p) != t:
                fails.append('emit time %r is off the 10^-%d grid' % (t, p))
        seen = [c[3] if c[0] in ('timestep', 'next_update') else c[4] for c in tr.calls]
        seen += [ev[4] for ev in tr.events if ev[0] == 'invoke']
        seen += [ev[1] for ev in tr.events if ev[0] == 'run_for-end']
        for t in seen:
            if t is not None and round(t, p) != t:
                fails.append('event time %r (seen by a callback / at an invocation) is off the 10^-%d grid' % (t, p))
                break
    return fails


def check_c12_rows(tr, eng, scn):
    """one config record, then rows at init and after each batch; rows == projection of the state"""
    fails = []
    kinds = [ev[0] for ev in tr.events]
    if 'emit-config' in kinds:
        i = kinds.index('emit-config')
        if 'emit' in kinds and kinds.index('emit') < i:
            fails.append('a history row was emitted before the configuration record')
        if kinds.count('emit-config') != 1:
            fails.append('%d configuration records' % kinds.count('emit-config'))
    else:
        fails.append('no configuration record emitted')
    # each send-end (batch + steps) is followed by exactly one emit (emit_step 1) before the next invoke/apply
    if scn.get('emit_step', 1) == 1:
        evs = tr.events
        for i, ev in enumerate(evs):
            if ev[0] == 'send-end':
                nxt = [e[0] for e in evs[i + 1:i + 4] if e[0] in ('emit', 'invoke', 'apply-begin', 'send-begin', 'run_for-end')]
                if not nxt or nxt[0] != 'emit':
                    fails.append('batch at %s not followed by an emit' % (ev[1],))
        n_emit = kinds.count('emit')
        n_send = kinds.count('send-end')
        if n_emit != n_send + 1:
            fails.append('%d rows for %d batches (+1 initial)' % (n_emit, n_send))
    return fails


def summarize(scn):
    return {'procs': [(p['name'], p.get('dts') or p['timestep'], p['cond']) for p in scn['procs']],
            'calls': [(c['interval'], c['force']) for c in scn['calls']], 'precision': scn.get('precision'),
            't0': scn.get('t0', 0)}


def nontrivial_schedule(tr, scn):
    """non-trivial: at least two processes with different timesteps, or a quiet/deferral event occurred"""
    dts = set()
    for p in scn['procs']:
        dts.add(tuple(p['dts']) if p.get('dts') else p['timestep'])
    quiet = any(c[0] == 'condition' and not c[3] for c in tr.calls)
    deferred = any(ev[0] == 'invoke' and ev[3] is not None and ev[4] is not None and ev[3] < ev[4] - TOL
                   for ev in tr.events)
    return len(dts) > 1 or quiet or deferred


def write_replay(outdir, prop, name, scn, fails, kind='scenario', extra=None):
    os.makedirs(outdir, exist_ok=True)
    path = os.path.join(outdir, '%s.%s.json' % (prop, name))
    data = {'property': prop, 'kind': kind, 'scenario': scn, 'failed': fails[:10]}
    if extra:
        data.update(extra)
    json.dump(data, open(path, 'w'), indent=1, default=repr)
    return os.path.relpath(path, HERE)


def emit_result(res):
    print(json.dumps(res, default=repr))
