#!/bin/bash
# the whole seed matrix in scratch worktrees (VERIF_REPO), LANES lanes in parallel; /repo is not touched.
# usage: WT=/tmp/wt/H LANES=3 tools/seed_matrix_par.sh   (worktree of seed CNNx is $WT NN; all must exist and be clean)
cd /verif; : > out/seed_matrix_par.txt
LANES=${LANES:-3}
lane() {
  for s in $(ls seeded); do
    nn=$(echo $s | cut -c2-3)
    [ $(( (10#$nn) % LANES )) -eq $1 ] || continue
    wt=${WT}$nn
    prop=$(python3 -c "import json;print(json.load(open('/verif/seeded/$s/meta.json'))['property'])")
    (cd $wt && git checkout -q -- vivarium && git apply /verif/seeded/$s/patch.diff) || { echo "$s cannot apply in $wt" >> out/seed_matrix_par.txt; continue; }
    VERIF_REPO=$wt VERIF_EVIDENCE_DIR=out/seed_evidence_$1 PYVC_JOBS=5 ./check $prop --tier quick > out/seed_$s.log 2>&1; rc=$?
    (cd $wt && git checkout -q -- vivarium)
    line=$(grep -a "failed obligation\|UNDECIDED" out/seed_$s.log | head -1 | cut -c1-170)
    echo "$s prop=$prop rc=$rc :: $line" >> out/seed_matrix_par.txt
  done
}
i=0
while [ $i -lt $LANES ]; do lane $i & i=$((i+1)); done
wait
sort out/seed_matrix_par.txt -o out/seed_matrix_par.txt
grep -vc "rc=1" out/seed_matrix_par.txt
