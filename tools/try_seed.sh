#!/bin/sh
# apply a seeded change to /repo, run a command, always revert.   usage: try_seed.sh <seed-name> <command...>
NAME=$1; shift
P=/verif/seeded/$NAME/patch.diff
cd /repo || exit 9
if ! git diff --quiet; then echo "/repo not clean"; exit 9; fi
git apply $P || { echo "PATCH DOES NOT APPLY: $NAME"; git checkout -q -- .; exit 8; }
cd /verif
VERIF_EVIDENCE_DIR=out/seed_evidence "$@"; RC=$?
git -C /repo checkout -q -- .
echo "[seed $NAME] rc=$RC"
exit $RC
