#!/bin/sh
# after a fix commit in /repo: does every seeded change still apply, still break its demonstration, and does the
# demonstration still pass without it?   usage: tools/recheck_seeds.sh [seed ...]
cd /verif
SEEDS=${*:-$(ls seeded)}
for s in $SEEDS; do
  P=/verif/seeded/$s/patch.diff
  ID=$(echo $s | cut -c1-3); D=/tmp/recheck_demo/demo_$ID.py; mkdir -p /tmp/recheck_demo; cp /verif/seeded/$s/demo.py $D   # some demos look for their own file name
  (cd /repo && git diff --quiet) || { echo "/repo not clean"; exit 9; }
  W0=$(cd /repo && PYTHONPATH=/repo timeout 300 /venv/bin/python $D >/dev/null 2>&1; echo $?)
  if ! git -C /repo apply $P 2>/dev/null; then echo "$s DOES-NOT-APPLY without=$W0"; continue; fi
  W1=$(cd /repo && PYTHONPATH=/repo timeout 300 /venv/bin/python $D >/dev/null 2>&1; echo $?)
  git -C /repo checkout -q -- .
  echo "$s without=$W0 with=$W1"
done
