"""write seeded/CNNg/meta.json:  python3 tools/mk_meta7.py NN "<breaks>" "<needs_to_manifest>" """
import json, sys
nn, breaks, needs = sys.argv[1:4]
d = '/verif/seeded/C%si/' % nn
conf = open(d + 'confirm.txt').read().strip()
json.dump({'property': 'C' + nn, 'breaks': breaks, 'needs_to_manifest': needs, 'round': 9,
           'produced_by': 'independent sub-agent given only the property text, a scratch worktree and the instruction to avoid the sites of the first eight seeded changes',
           'confirmation': 'tools/confirm_seed9.sh: ' + conf, 'files': {'patch': 'patch.diff', 'demonstration': 'demo.py'}},
          open(d + 'meta.json', 'w'), indent=1)
print(conf)
