"""profile the symbolic execution of one contract:  python3-vt tools/prof.py <contract-key> [seconds]"""
import sys, importlib, cProfile, pstats, os, signal
sys.path.insert(0, '/verif')
from pyvc import spec as S
from pyvc.check import load_specs
load_specs()
from pyvc.driver import verify_contract
pr = cProfile.Profile()


def dump(*a):
    pr.disable()
    st = pstats.Stats(pr)
    st.sort_stats('cumulative').print_stats(40)
    os._exit(0)


signal.signal(signal.SIGALRM, dump)
signal.alarm(int(sys.argv[2]) if len(sys.argv) > 2 else 75)
c = S.CONTRACTS[sys.argv[1]]
pr.enable()
r = verify_contract(c, (c.instances or [None])[0])
print(r.status, r.reason)
dump()
