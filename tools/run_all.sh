#!/bin/sh
# run every check (quick tier); usage: tools/run_all.sh [--rebaseline]
cd /verif
for p in C01 C02 C03 C04 C05 C06 C07 C08 C09 C10 C11 C12 C13 C14 C15 C16 C17 C18 C19; do
  timeout 2400 ./check $p --tier quick "$@" > out/last_$p.log 2>&1; rc=$?
  echo "$p rc=$rc $(grep -a '^property' out/last_$p.log | cut -c1-150)"
  grep -a "VIOLATION\|UNDECIDED\|ERROR" out/last_$p.log | head -3 | cut -c1-220
done
