"""debug one obligation:  python3-vt tools/ob.py <contract-key> <obligation-name-substring> [--show]"""
import sys, importlib, time, os
sys.path.insert(0, '/verif')
import z3
from pyvc import spec as S
from pyvc.check import load_specs
load_specs()
import pyvc.driver as D

key, pat = sys.argv[1], sys.argv[2]
show = '--show' in sys.argv
con = S.CONTRACTS[key]
captured = []
orig = D.discharge
def fake(ctx, resolver, ob, timeout_ms, fuel=2):
    captured.append((ctx, resolver, ob))
    return 'discharged', 0.0, None, z3.Solver()
D.discharge = fake
D.verify_contract(con, (con.instances or [None])[0])
D.discharge = orig
names = [c[2].name for c in captured]
sel = [c for c in captured if pat in c[2].name]
print('%d obligations, %d match' % (len(captured), len(sel)))
for ctx, resolver, ob in sel[:int(os.environ.get('N', '1'))]:
    print('====', ob.name, 'line', ob.lineno, ob.text)
    formulas = list(ob.assumptions) + [ob.goal]
    extra = D.unfold(ctx, resolver, formulas, 2)
    if show:
        for a in ob.assumptions:
            print('  A:', str(a)[:1500].replace('\n', ' '))
        print('  G:', str(ob.goal)[:3000])
    for cfg in [{}, {'smt.mbqi': False}, {'smt.mbqi': False, 'smt.qi.eager_threshold': 100.0}]:
        s = z3.Solver()
        s.set('timeout', int(os.environ.get('T', '20000')))
        for k, v in cfg.items():
            s.set(k, v)
        from pyvc import ty as T
        s.add(T.atoms_distinct())
        for a in list(ob.assumptions) + extra:
            s.add(a)
        s.add(z3.Not(ob.goal))
        t0 = time.time()
        r = s.check()
        print('  cfg', cfg, '->', r, '%.2fs' % (time.time() - t0), s.reason_unknown() if r == z3.unknown else '')
    if '--core' in sys.argv:
        s = z3.Solver()
        s.set('timeout', 20000)
        s.set('smt.mbqi', False)
        ps = []
        for i, a in enumerate(list(ob.assumptions) + extra):
            p = z3.Bool('assump!%d' % i)
            ps.append((p, a))
            s.add(z3.Implies(p, a))
        s.add(z3.Not(ob.goal))
        r = s.check(*[p for p, _ in ps])
        print('  core check', r)
        if r == z3.unsat:
            core = set(str(c) for c in s.unsat_core())
            for p, a in ps:
                if str(p) in core:
                    print('   CORE:', str(a)[:300].replace('\n', ' '))
    if '--bisect' in sys.argv:
        from pyvc import ty as T
        allA = list(ob.assumptions) + extra
        quant = [i for i, a in enumerate(allA) if D.z3.is_quantifier(a) or 'ForAll' in str(a)[:4000] or 'Exists' in str(a)[:4000]]
        print('  %d assumptions, %d with quantifiers' % (len(allA), len(quant)))
        def run(skip, tmo=4000):
            s = z3.Solver(); s.set('timeout', tmo); s.add(T.atoms_distinct())
            for i, a in enumerate(allA):
                if i not in skip:
                    s.add(a)
            s.add(z3.Not(ob.goal))
            t0 = time.time(); r = s.check(); return r, time.time() - t0
        r, dt = run(set(quant))
        print('  without ANY quantified assumption:', r, '%.2fs' % dt)
        for i in quant:
            r, dt = run({i})
            if r != z3.unknown:
                print('  dropping #%d makes it %s in %.2fs: %s' % (i, r, dt, str(allA[i])[:400].replace('\n', ' ')))
