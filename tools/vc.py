"""verify single contracts / lemmas:  python3-vt tools/vc.py [-v] <contract-key | lemma:name> ...   (PYVC_TIMEOUT ms)"""
import os
import sys
sys.path.insert(0, os.path.dirname(os.path.dirname(os.path.abspath(__file__))))
from pyvc import spec as S
from pyvc.check import load_specs
load_specs()
from pyvc.driver import verify_contract, verify_lemma
names = [a for a in sys.argv[1:] if not a.startswith('-')] or list(S.CONTRACTS)
verbose = '-v' in sys.argv
for k in names:
    if k.startswith('lemma:'):
        rs = [verify_lemma(S.LEMMAS[k[6:]])]
    else:
        c = S.CONTRACTS[k]
        rs = [verify_contract(c, inst, timeout_ms=int(os.environ.get('PYVC_TIMEOUT', '30000'))) for inst in (c.instances or [None])]
    for r in rs:
        print(k, r.instance and r.instance['name'], r.status, r.reason[:900], 'cover', r.cover, 'canary', r.canary,
              'obl', len(r.obligations), '%.2fs' % r.time)
        for o in r.obligations:
            if verbose or o['verdict'] != 'discharged':
                print('   ', o['verdict'], o['name'], o['time_s'], o.get('counterexample', ''), o.get('text', '')[:60])
