"""Generate MANIFEST.json from pyvc/props.py (single source of truth)."""
import json, sys, os
sys.path.insert(0, '/verif')
from pyvc import props as P
ids = [json.loads(l)['id'] for l in open('/verif/properties.jsonl')]
NA = {}   # property -> reason (filled when a property is not claimed)
checks = []
for pid in ids:
    if pid not in P.PROPS:
        NA[pid] = 'check not built yet (framework under construction)'
        continue
    info = P.PROPS[pid]
    checks.append({
        'property_id': pid,
        'quick_cmd': './check %s --tier quick' % pid,
        'thorough_cmd': './check %s --tier thorough' % pid,
        'evidence_file': 'evidence/%s.json' % pid,
        'replay_cmd_template': './check %s --replay {path}' % pid,
        'engine': 'pyvc',
        'level_claimed': {'category': info['level'], 'text': info['explanation'], 'design_ref': 'DESIGN.md section 4 (%s) and section 9' % pid},
        'level_note': ' | '.join(info.get('assumptions', []) + info.get('trusted', [])) or 'see evidence trusted_base',
        'technique': info.get('technique', 'contract-based deductive verification (PyVC: contracts on the real source -> VCs -> z3), bounded contract monitors as stand-in where stated'),
    })
m = {
 'version': 1,
 'setup_cmd': './setup.sh',
 'hooks': {'guard': 'VIVARIUM_CORE_VERIF',
           'enable': 'no source hooks are needed: contracts live in /verif/specs (sidecar) and run-time monitors are attached by monkey-patching inside the check process',
           'baseline_off_cmd': 'cd /repo && /venv/bin/python -m pytest -ra -q -p no:cacheprovider --timeout=900 --continue-on-collection-errors',
           'source_commits': [], 'add_only': True},
 'engines': [{'name': 'pyvc', 'path': 'pyvc/', 'serves_properties': [c['property_id'] for c in checks],
              'kind_free_text': 'own verification-condition generator for a Python subset (re-reads /repo sources via ast on every run, sidecar contracts, z3 back end) + native contract monitors / scenario drivers as bounded stand-in'}],
 'checks': checks,
 'notes': 'Exit codes of every check: 0 held, 1 VIOLATION, 2 UNDECIDED (unknown/out of subset/contract drift), 3 internal error. See DESIGN.md.',
 'not_applicable': [{'property_id': k, 'reason': v} for k, v in NA.items()],
}
json.dump(m, open('/verif/MANIFEST.json', 'w'), indent=1)
print('checks', len(checks), 'not_applicable', len(NA))
