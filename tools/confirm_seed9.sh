#!/bin/sh
# confirm a round-9 seeded change: usage confirm_seed2.sh <NN>   (worktree /tmp/wt/D<NN>, files *_C<NN>.*, stored as seeded/C<NN>b)
NN=$1; WT=/tmp/wt/K$NN; ID=C$NN; NAME=C${NN}i
OUT=/verif/seeded/$NAME; mkdir -p $OUT
cd $WT || exit 9
git checkout -q -- vivarium
PYTHONPATH=$WT timeout 600 /venv/bin/python demo_$ID.py > $OUT/demo_without.log 2>&1; RC0=$?
git apply patch_$ID.diff || { echo "patch does not apply"; exit 8; }
PYTHONPATH=$WT timeout 600 /venv/bin/python demo_$ID.py > $OUT/demo_with.log 2>&1; RC1=$?
PYTHONPATH=$WT /venv/bin/python -m pytest -q -p no:cacheprovider --timeout=900 --deselect vivarium/experiments/large_experiment.py > $OUT/suite_with.log 2>&1; RCS=$?
SUMMARY=$(tail -1 $OUT/suite_with.log)
git checkout -q -- vivarium
cp patch_$ID.diff $OUT/patch.diff; cp demo_$ID.py $OUT/demo.py
echo "$NAME demo_without=$RC0 demo_with=$RC1 suite_rc=$RCS :: $SUMMARY" | tee $OUT/confirm.txt
