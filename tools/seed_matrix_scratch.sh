#!/bin/sh
# like seed_matrix.sh, but each seeded change is exercised in its own scratch worktree (VERIF_REPO), /repo is not touched.
# usage: SEEDS="C01f ..." WT=/tmp/wt/H tools/seed_matrix_scratch.sh   (worktree of seed CNNx is $WT NN)
cd /verif; : > out/seed_matrix_scratch.txt
for s in $SEEDS; do
  nn=$(echo $s | cut -c2-3)
  wt=${WT}$nn
  prop=$(python3 -c "import json;print(json.load(open('/verif/seeded/$s/meta.json'))['property'])")
  (cd $wt && git checkout -q -- vivarium && git apply /verif/seeded/$s/patch.diff) || { echo "$s cannot apply in $wt" | tee -a out/seed_matrix_scratch.txt; continue; }
  VERIF_REPO=$wt VERIF_EVIDENCE_DIR=out/seed_evidence ./check $prop --tier quick > out/seed_$s.log 2>&1; rc=$?
  (cd $wt && git checkout -q -- vivarium)
  line=$(grep -a "failed obligation\|UNDECIDED" out/seed_$s.log | head -1 | cut -c1-170)
  echo "$s prop=$prop rc=$rc :: $line" | tee -a out/seed_matrix_scratch.txt
done
