import json, sys, glob, jsonschema
sch = json.load(open('/root/.vp/EVIDENCE.schema.json'))
for f in sorted(glob.glob('/verif/evidence/*.json')):
    ev = json.load(open(f))
    try:
        jsonschema.validate(ev, sch)
        c = ev['coverage']
        print(f.split('/')[-1], 'valid', ev['level'], 'obl', c.get('obligations'), 'dis', c.get('discharged'), 'eval', c.get('evaluations'), 'dn', c.get('distinct_nontrivial'), 'wall', ev['wall_s'])
    except jsonschema.ValidationError as e:
        print(f, 'INVALID', e.message[:200])
m = json.load(open('/verif/MANIFEST.json'))
jsonschema.validate(m, json.load(open('/root/.vp/MANIFEST.schema.json')))
print('manifest valid; checks:', [c['property_id'] for c in m['checks']], 'n/a:', [c['property_id'] for c in m.get('not_applicable', [])])
