#!/bin/sh
# confirm a round-9 seed and try the property's quick check on it in its scratch worktree: tools/round7.sh NN
NN=$1
/verif/tools/confirm_seed9.sh $NN | tail -1
[ -f /verif/seeded/C${NN}i/meta.json ] || python3 - $NN <<'PY'
import json,sys
nn=sys.argv[1]
json.dump({'property':'C'+nn,'breaks':'(pending)','needs_to_manifest':'(pending)','round':9,'files':{'patch':'patch.diff','demonstration':'demo.py'}},open('/verif/seeded/C%si/meta.json'%nn,'w'))
PY
cd /verif
s=C${NN}i; wt=/tmp/wt/K$NN; prop=C$NN
(cd $wt && git checkout -q -- vivarium && git apply /verif/seeded/$s/patch.diff) || { echo "$s cannot apply"; exit 1; }
VERIF_REPO=$wt VERIF_EVIDENCE_DIR=out/seed_evidence_r9 ./check $prop --tier quick > out/seed_$s.log 2>&1; rc=$?
(cd $wt && git checkout -q -- vivarium)
echo "$s prop=$prop rc=$rc :: $(grep -a 'failed obligation\|UNDECIDED' out/seed_$s.log | head -1 | cut -c1-170)" | tee -a out/seed_matrix_r9.txt
