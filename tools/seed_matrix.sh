#!/bin/sh
# for every seeded change: apply it to /repo, run the check of its property (quick), record the verdict, revert.
cd /verif; : > out/seed_matrix.txt
for s in ${SEEDS:-C01 C02 C03 C04 C05 C06 C07 C08 C09 C10 C11 C12 C13 C14 C15 C16 C17 C18 C19}; do
  prop=$(python3 -c "import json;print(json.load(open('/verif/seeded/$s/meta.json'))['property'])")
  ./tools/try_seed.sh $s ./check $prop --tier quick > out/seed_$s.log 2>&1
  rc=$(grep -a "^\[seed" out/seed_$s.log | sed 's/.*rc=//')
  line=$(grep -a "failed obligation\|UNDECIDED" out/seed_$s.log | head -1 | cut -c1-170)
  echo "$s prop=$prop rc=$rc :: $line" | tee -a out/seed_matrix.txt
done
