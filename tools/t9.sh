#!/bin/sh
# tools/t7.sh NN module args...: run a bounded driver on the clean scratch tree /tmp/wt/X and on seed CNNg in /tmp/wt/INN
n=$1; mod=$2; shift 2
echo "--- clean"; PYTHONPATH=/tmp/wt/X:/verif /venv/bin/python -m $mod "$@" 2>&1 | grep -av conda | cut -c1-260
(cd /tmp/wt/K$n && git checkout -q -- vivarium && git apply /verif/seeded/C${n}i/patch.diff)
echo "--- seeded"; PYTHONPATH=/tmp/wt/K$n:/verif /venv/bin/python -m $mod "$@" 2>&1 | grep -av conda | cut -c1-460
(cd /tmp/wt/K$n && git checkout -q -- vivarium)
