#!/bin/bash
# round-8 seeds in their worktrees /tmp/wt/INN, LANES lanes
cd /verif; : > out/seed_matrix_h.txt
LANES=${LANES:-3}
lane() {
  for s in $(ls seeded | grep 'h$'); do
    nn=$(echo $s | cut -c2-3)
    [ $(( (10#$nn) % LANES )) -eq $1 ] || continue
    wt=/tmp/wt/J$nn; prop=C$nn
    (cd $wt && git checkout -q -- vivarium && git apply /verif/seeded/$s/patch.diff) || { echo "$s cannot apply" >> out/seed_matrix_h.txt; continue; }
    VERIF_REPO=$wt VERIF_EVIDENCE_DIR=out/seed_evidence_$1 PYVC_JOBS=5 ./check $prop --tier quick > out/seed_$s.log 2>&1; rc=$?
    (cd $wt && git checkout -q -- vivarium)
    echo "$s prop=$prop rc=$rc :: $(grep -a 'failed obligation\|UNDECIDED' out/seed_$s.log | head -1 | cut -c1-170)" >> out/seed_matrix_h.txt
  done
}
i=0; while [ $i -lt $LANES ]; do lane $i & i=$((i+1)); done; wait
sort out/seed_matrix_h.txt -o out/seed_matrix_h.txt; cat out/seed_matrix_h.txt
