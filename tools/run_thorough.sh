#!/bin/sh
# run every check in the thorough tier, evidence to out/thorough_evidence (does not touch evidence/); usage: tools/run_thorough.sh [ids...]
cd /verif
for p in ${*:-C14 C15 C09 C17 C18 C19 C16 C11 C08 C06 C07 C13 C05 C10 C12 C02 C03 C04 C01}; do
  s=$(date +%s)
  VERIF_EVIDENCE_DIR=out/thorough_evidence timeout 10800 ./check $p --tier thorough > out/thorough_$p.log 2>&1; rc=$?
  echo "$p rc=$rc $(( $(date +%s) - s ))s $(grep -a '^property' out/thorough_$p.log | cut -c1-150)"
  grep -a "VIOLATION\|UNDECIDED\|ERROR" out/thorough_$p.log | head -3 | cut -c1-220
done
