"""Sidecar specification registry.

Spec files (/verif/specs/*.py) are plain Python.  They are *imported* natively
(ghost functions are ordinary executable Python, used by the replay harness and
the bounded monitors) and *parsed* by PyVC (ghost functions, lemmas and the
expression strings of contracts are translated to logic).
"""
import ast
import inspect
import textwrap

CONTRACTS = {}      # key -> Contract           key: 'module:qual'  e.g. 'vivarium.core.engine:Engine.run_for'
GHOSTS = {}         # name -> GhostDef
LEMMAS = {}         # name -> LemmaDef
EXTERNALS = {}      # name -> Contract (trusted, no body)
CLASSES = {}        # class name -> ClassModel
UNIONS = {}
TYPEDEFS = {}


class Contract:
    def __init__(self, key, **kw):
        self.key = key
        # `module:qualname#variant`: several contracts (views) of one function; callers see the plain key only
        base, _, self.variant = key.partition('#')
        self.module, self.qual = base.split(':') if ':' in base else (None, base)
        # entry assumptions of THIS verification only (not required from callers); each is listed in the evidence
        self.assumes = kw.pop('assumes', [])
        self.why_assumed = kw.pop('why_assumed', '')
        # class of `self` when the function is inherited and verified for a subclass receiver (dynamic dispatch)
        self.self_class = kw.pop('self_class', None)
        self.props = kw.pop('props', [])
        self.types = kw.pop('types', {})
        self.requires = kw.pop('requires', [])
        self.ensures = kw.pop('ensures', [])
        self.mutates = kw.pop('mutates', [])       # by-value container params modified in place
        self.modifies = kw.pop('modifies', [])     # heap frame: 'Class.field' or 'self.field'
        self.loops = kw.pop('loops', {})
        self.decreases = kw.pop('decreases', None)
        self.raises = kw.pop('raises', None)       # None | dict(when=expr[, ensures=[..]])
        self.hints = kw.pop('hints', [])           # lemma instances available at every exit
        self.ghost_pre = kw.pop('ghost_pre', [])
        self.trusted = kw.pop('trusted', False)    # external / assumed: not verified
        self.why_trusted = kw.pop('why_trusted', '')
        self.abstract = kw.pop('abstract', [])     # statements (source text) replaced by havoc
        self.instances = kw.pop('instances', None)  # list of type-overrides: verify once per instance
        self.fresh = kw.pop('fresh', [])
        self.calls = kw.pop('calls', {})           # local callee-name -> contract key override
        self.alloc = kw.pop('alloc', None)
        self.note = kw.pop('note', '')
        self.pure = kw.pop('pure', False)
        self.ghost_updates = kw.pop('ghost_updates', [])
        self.params = kw.pop('params', None)       # for externals without source
        self.defaults = kw.pop('defaults', {})
        self.tags = kw.pop('tags', {})
        self.ghost = kw.pop('ghost', {})           # anchor text -> {'before': [stmts], 'after': [stmts]} ghost code
        self.gen_depth = kw.pop('gen_depth', None)   # nesting depth of generated trees for the native monitor
        self.atoms = kw.pop('atoms', [])          # extra key atoms for the native generator
        if kw:
            raise TypeError('unknown contract options %s' % list(kw))

    @property
    def short(self):
        return self.qual


def contract(key, **kw):
    c = Contract(key, **kw)
    CONTRACTS[key] = c
    return c


def external(key, **kw):
    kw['trusted'] = True
    c = Contract(key, **kw)
    EXTERNALS[key] = c
    CONTRACTS[key] = c
    return c


class GhostDef:
    def __init__(self, fn, decreases=None, opaque=False, quantified=False):
        self.fn = fn
        self.name = fn.__name__
        self.decreases = decreases
        self.opaque = opaque
        self.quantified = quantified      # definition supplied as a quantified axiom (pattern = the application)
        src = textwrap.dedent(inspect.getsource(fn))
        mod = ast.parse(src)
        self.node = mod.body[0]
        self.node.decorator_list = []
        ann = fn.__annotations__
        self.params = [a.arg for a in self.node.args.args]
        self.types = {p: ann[p] for p in self.params}
        self.ret = ann['return']


def ghost(_fn=None, decreases=None, opaque=False, quantified=False):
    def deco(fn):
        GHOSTS[fn.__name__] = GhostDef(fn, decreases, opaque, quantified)
        return fn
    if _fn is not None:
        return deco(_fn)
    return deco


class LemmaDef:
    def __init__(self, fn, decreases=None, props=()):
        self.fn = fn
        self.name = fn.__name__
        self.decreases = decreases
        self.props = list(props)
        src = textwrap.dedent(inspect.getsource(fn))
        mod = ast.parse(src)
        self.node = mod.body[0]
        self.node.decorator_list = []
        ann = fn.__annotations__
        self.params = [a.arg for a in self.node.args.args]
        self.types = {p: ann[p] for p in self.params}
        self.requires, self.ensures, self.body, self.local_types = [], [], [], {}
        for st in self.node.body:
            if isinstance(st, ast.Expr) and isinstance(st.value, ast.Call) and isinstance(st.value.func, ast.Name) \
                    and st.value.func.id in ('requires', 'ensures', 'types'):
                if st.value.func.id == 'types':
                    for k in st.value.keywords:
                        self.local_types[k.arg] = ast.literal_eval(k.value)
                    continue
                lst = self.requires if st.value.func.id == 'requires' else self.ensures
                lst.extend(st.value.args)
            elif isinstance(st, ast.Expr) and isinstance(st.value, ast.Constant) and isinstance(st.value.value, str):
                continue
            else:
                self.body.append(st)


def lemma(_fn=None, decreases=None, props=()):
    def deco(fn):
        LEMMAS[fn.__name__] = LemmaDef(fn, decreases, props)
        return fn
    if _fn is not None:
        return deco(_fn)
    return deco


# natively these are no-ops so that lemma bodies can be imported
def requires(*a):
    return None


def ensures(*a):
    return None


def types(**kw):
    return None


def hint(*a):
    return None


class ClassModel:
    def __init__(self, name, fields, bases=(), ghost=None, module=None):
        self.name, self.fields, self.bases = name, dict(fields), list(bases)
        self.ghost = dict(ghost or {})
        self.module = module

    def all_fields(self):
        out = {}
        for b in self.bases:
            out.update(CLASSES[b].all_fields())
        out.update(self.fields)
        out.update(self.ghost)
        return out


def model_class(name, fields, bases=(), ghost=None, module=None):
    CLASSES[name] = ClassModel(name, fields, bases, ghost, module)
    return CLASSES[name]


def union(name, **alts):
    UNIONS[name] = alts
    return name


def typedef(name, ty):
    TYPEDEFS[name] = ty
    return name


BOUND_TYPES = {}


def bound_types(**kw):
    """default types of bound variables (by name) in quantifiers of ghost functions / lemmas"""
    BOUND_TYPES.update(kw)
