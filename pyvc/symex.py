"""PyVC symbolic executor: Python AST -> verification conditions.

One path at a time (forward symbolic execution).  Loops are cut at their
invariants, calls are replaced by the callee's contract.  Every implicit
Python failure becomes a safety obligation.  See DESIGN.md section 2.
"""
import ast
import itertools
import z3

from . import ty as T
from . import spec as S


class OutOfSubset(Exception):
    pass


class ContractDrift(Exception):
    pass


XREAL = None


def _mk_xreal():
    global XREAL
    d = z3.Datatype('XReal')
    d.declare('fin', ('xr', z3.RealSort()))
    d.declare('inf')
    s = d.create()

    class _X(T.Ty):
        name = 'XReal'

        def sort(self):
            return s

        def dflt(self):
            return s.constructor(0)(z3.RealVal(0))
    XREAL = _X()
    XREAL.fin = s.constructor(0)
    XREAL.inf = s.constructor(1)()
    XREAL.is_inf = s.recognizer(1)
    XREAL.val = s.accessor(0, 0)
    T.declare_type('XReal', XREAL)


_mk_xreal()


class SV:
    """A symbolic value: static type + z3 term (or python payload for functions)."""
    __slots__ = ('ty', 't', 'extra')

    def __init__(self, ty, t, extra=None):
        self.ty, self.t, self.extra = ty, t, extra

    def __repr__(self):
        return 'SV(%s, %s)' % (self.ty, self.t)


class Obligation:
    def __init__(self, name, kind, assumptions, goal, lineno, props, text=''):
        self.name, self.kind, self.assumptions, self.goal = name, kind, assumptions, goal
        self.lineno, self.props, self.text = lineno, props, text
        self.apps = None


class State:
    def __init__(self):
        self.env = {}
        self.heap = {}
        self.pc = []
        self.alias = {}       # local name -> lvalue (ast) it borrows from, evaluated lazily
        self.ghost = {}
        self.old = None       # State snapshot at entry

    def copy(self):
        s = State()
        s.env = dict(self.env)
        s.heap = dict(self.heap)
        s.pc = list(self.pc)
        s.alias = dict(self.alias)
        s.ghost = dict(self.ghost)
        s.old = self.old
        return s


_fresh_counter = itertools.count()


def _heap_modified(st, st2, heap_before):
    """did evaluating a comprehension element in the copy st2 change the heap?  Arrays touched for the first time
    (lazily created, canonical name) are not a change: they are adopted by the enclosing state."""
    for k_, arr in st2.heap.items():
        if k_ in heap_before:
            if not (arr is heap_before[k_] or arr.eq(heap_before[k_])):
                return True
        elif z3.is_const(arr) and arr.decl().name() == 'heap!%s.%s' % k_:
            st.heap.setdefault(k_, arr)
        else:
            return True
    return False


_FRESH_LOG = None      # while a list comprehension element is evaluated: the constants created for it


def fresh(name, ty):
    c = z3.Const('%s!%d' % (name, next(_fresh_counter)), ty.sort())
    if _FRESH_LOG is not None:
        _FRESH_LOG.append(c)
    return c


def fresh_sv(name, ty):
    return SV(ty, fresh(name, ty))


class Ctx:
    """Per-function verification context."""

    def __init__(self, fname, props, module_consts=None, timeout_ms=30000):
        self.fname = fname
        self.props = props
        self.obligations = []
        self.module_consts = module_consts or {}
        self.ghost_apps = {}       # (name, args-sexpr) -> (gdef, [terms], app term)
        self.infeasible = 0
        self.paths = 0
        self.assumptions_used = set()
        self.timeout_ms = timeout_ms
        self.ghost_funcs = {}
        self.extern_funcs = {}
        self.counts = {}
        self.loop_contracts = {}
        self.reached = set()
        self.mode = 'code'          # 'code' | 'spec' | 'ghost'
        self.alloc_counter = None

    def name_for(self, kind, label):
        base = '%s.%s.%s' % (self.fname, kind, label) if label else '%s.%s' % (self.fname, kind)
        n = self.counts.get(base, 0)
        self.counts[base] = n + 1
        return base if n == 0 else '%s#%d' % (base, n)


# --------------------------------------------------------------------------
# typed operations
# --------------------------------------------------------------------------

def is_num(ty):
    return ty in (T.INT, T.REAL) or ty is XREAL


def to_real(sv):
    if sv.ty == T.REAL:
        return sv.t
    if sv.ty == T.INT:
        return z3.ToReal(sv.t)
    if sv.ty == T.BOOL:
        return z3.If(sv.t, z3.RealVal(1), z3.RealVal(0))
    raise OutOfSubset('not numeric: %s' % sv.ty)


def seq_lit(elem_ty, terms):
    st = T.Seq(elem_ty)
    arr = z3.K(z3.IntSort(), elem_ty.dflt())
    for i, t in enumerate(terms):
        arr = z3.Store(arr, i, t)
    return SV(st, st.mk(z3.IntVal(len(terms)), arr))


def seq_len(sv):
    return sv.ty.len(sv.t)


def seq_get(sv, i):
    return SV(sv.ty.elem, sv.ty.arr(sv.t)[i])


def seq_append(sv, x):
    n = seq_len(sv)
    return SV(sv.ty, sv.ty.mk(n + 1, z3.Store(sv.ty.arr(sv.t), n, x)))


def seq_concat(a, b):
    j = z3.Int('j!cc')
    la, lb = seq_len(a), seq_len(b)
    arr = z3.Lambda([j], z3.If(z3.And(0 <= j, j < la), a.ty.arr(a.t)[j],
                              z3.If(z3.And(la <= j, j < la + lb), b.ty.arr(b.t)[j - la], a.ty.elem.dflt())))
    return SV(a.ty, a.ty.mk(la + lb, arr))


def seq_slice(sv, lo, hi):
    """Python slice semantics sv[lo:hi] with lo/hi z3 Int terms or None."""
    n = seq_len(sv)

    def clamp(i, default):
        if i is None:
            return default
        if z3.is_int_value(i):
            c = i.as_long()
            if c == 0:
                return z3.IntVal(0)
            if c > 0:
                return z3.If(n < c, n, z3.IntVal(c))
            return z3.If(n + c < 0, z3.IntVal(0), n + c)
        return z3.If(i < 0, z3.If(i + n < 0, z3.IntVal(0), i + n), z3.If(i > n, n, i))
    lo_, hi_ = clamp(lo, z3.IntVal(0)), clamp(hi, n)
    newlen = z3.If(hi_ - lo_ > 0, hi_ - lo_, z3.IntVal(0))
    j = z3.Int('j!sl')
    arr = z3.Lambda([j], z3.If(z3.And(0 <= j, j < newlen), sv.ty.arr(sv.t)[j + lo_], sv.ty.elem.dflt()))
    return SV(sv.ty, sv.ty.mk(z3.simplify(newlen), arr), extra=('slice', sv, lo_, newlen))


def map_has(sv, k):
    return sv.ty.has(sv.t)[k]


def map_get(sv, k):
    return SV(sv.ty.val, sv.ty.vals(sv.t)[k])


def map_set(sv, k, v):
    return SV(sv.ty, sv.ty.mk(z3.Store(sv.ty.has(sv.t), k, True), z3.Store(sv.ty.vals(sv.t), k, v)))


def map_del(sv, k):
    return SV(sv.ty, sv.ty.mk(z3.Store(sv.ty.has(sv.t), k, False), z3.Store(sv.ty.vals(sv.t), k, sv.ty.val.dflt())))


def tree_empty_node():
    return T.TNode(z3.K(T.AtomSort, z3.BoolVal(False)), z3.K(T.AtomSort, T.TREE.dflt()))


def tree_set(t, k, v):
    return T.TNode(z3.Store(T.thas(t), k, True), z3.Store(T.tkids(t), k, v))


def tree_del(t, k):
    return T.TNode(z3.Store(T.thas(t), k, False), z3.Store(T.tkids(t), k, T.TREE.dflt()))


def val_truthy(v):
    f = z3.Function('val_truthy', T.ValSort, z3.BoolSort())
    return z3.If(T.is_VNone(v), False,
                 z3.If(T.is_VInt(v), T.vint(v) != 0,
                       z3.If(T.is_VReal(v), T.vreal(v) != 0,
                             z3.If(T.is_VBool(v), T.vbool(v), f(v)))))


def truthy(sv):
    ty = sv.ty
    if ty == T.BOOL:
        return sv.t
    if ty == T.INT:
        return sv.t != 0
    if ty == T.REAL:
        return sv.t != 0
    if ty is XREAL:
        return z3.Or(XREAL.is_inf(sv.t), XREAL.val(sv.t) != 0)
    if ty == T.NONE:
        return z3.BoolVal(False)
    if ty in (T.EMPTYDICT, T.EMPTYSEQ):
        return z3.BoolVal(False)
    if isinstance(ty, T.Seq):
        return seq_len(sv) > 0
    if isinstance(ty, T.Map):
        k = z3.Const('k!tr', ty.key.sort())
        return z3.Exists([k], ty.has(sv.t)[k])
    if isinstance(ty, T.Opt):
        return z3.And(z3.Not(ty.is_none(sv.t)), truthy(SV(ty.inner, ty.get(sv.t))))
    if isinstance(ty, T.Ref):
        return z3.BoolVal(True)
    if isinstance(ty, T.Tup):
        return z3.BoolVal(len(ty.items) > 0)
    if isinstance(ty, T.Rec):
        return z3.BoolVal(len(ty.fields) > 0)
    if isinstance(ty, T.Union):
        return z3.Or(*[z3.And(ty.is_alt(sv.t, k), z3.BoolVal(False) if a in (T.EMPTYDICT, T.NONE, T.EMPTYSEQ)
                             else truthy(SV(a, ty.get(sv.t, k)))) for k, a in ty.alts.items()])
    if ty == T.TREE:
        k = z3.Const('k!tr', T.AtomSort)
        return z3.If(T.is_TNode(sv.t), z3.Exists([k], T.thas(sv.t)[k]),
                     z3.If(T.is_TList(sv.t), T.llen(sv.t) > 0, val_truthy(T.lval(sv.t))))
    if ty == T.VAL:
        return val_truthy(sv.t)
    if ty == T.ATOM:
        f = z3.Function('atom_nonempty', T.AtomSort, z3.BoolSort())
        return f(sv.t)
    raise OutOfSubset('truthiness of %s' % ty)


def tree_number(t):
    v = T.lval(t)
    return z3.If(T.is_VInt(v), z3.ToReal(T.vint(v)), T.vreal(v))


def tree_is_number(t):
    return z3.And(T.is_TLeaf(t), z3.Or(T.is_VInt(T.lval(t)), T.is_VReal(T.lval(t))))


def coerce(sv, want):
    """Coerce a value to an expected static type; None if impossible."""
    ty = sv.ty
    if want is None or ty == want:
        return sv
    if want == T.REAL and ty == T.INT:
        return SV(T.REAL, z3.ToReal(sv.t))
    if want == T.REAL and ty == T.BOOL:
        return SV(T.REAL, to_real(sv))
    if want == T.INT and ty == T.BOOL:
        return SV(T.INT, z3.If(sv.t, 1, 0))
    if want is XREAL and ty in (T.REAL, T.INT):
        return SV(XREAL, XREAL.fin(to_real(sv)))
    if want == T.REAL and (ty == T.TREE or (isinstance(ty, T.Opt) and ty.inner == T.TREE)):
        # a leaf of a nested dict read as a number (a time key): the number it holds.  For a leaf that is not a number (or an
        # absent optional) the result is unspecified -- contracts that use this state `is_number(..)` as a precondition.
        return SV(T.REAL, tree_number(sv.t if ty == T.TREE else ty.get(sv.t)))
    if isinstance(want, T.Opt):
        if ty == T.NONE:
            return SV(want, want.none())
        if isinstance(want.inner, T.Seq) and isinstance(want.inner.elem, T.Seq) and want.inner.elem.elem == T.ATOM and \
                (ty == T.TREE or (isinstance(ty, T.Opt) and ty.inner == T.TREE)):
            # a nested-dict leaf that holds None or a list of paths (a flow entry), read as Optional[Sequence[path]]:
            # an uninterpreted view of the same object (None is preserved, nothing else is assumed)
            view = z3.Function('view!pathlist', T.TreeSort, want.inner.sort())
            if ty == T.TREE:
                t, absent = sv.t, z3.BoolVal(False)
            else:
                t, absent = ty.get(sv.t), ty.is_none(sv.t)
            return SV(want, z3.If(z3.Or(absent, t == T.TLeaf(T.VNone())), want.none(), want.some(view(t))))
        inner = coerce(sv, want.inner)
        if inner is not None:
            return SV(want, want.some(inner.t))
        return None
    if isinstance(want, T.Map) and ty == T.EMPTYDICT:
        return SV(want, want.empty())
    if isinstance(want, T.Seq) and ty == T.EMPTYSEQ:
        return SV(want, want.empty())
    if isinstance(want, T.Seq) and isinstance(ty, T.Seq) and ty.elem in (T.NONE,):
        return None
    if isinstance(want, T.Union):
        alt = want.alt_of(ty)
        if alt is not None:
            return SV(want, want.inject(alt, sv.t))
        for k, a in want.alts.items():
            if a in (T.EMPTYDICT, T.NONE, T.EMPTYSEQ):
                continue
            c = coerce(sv, a)
            if c is not None:
                return SV(want, want.inject(k, c.t))
        return None
    if want == T.TREE:
        if ty == T.EMPTYDICT:
            return SV(T.TREE, tree_empty_node())
        if ty == T.NONE:
            return SV(T.TREE, T.TLeaf(T.VNone()))
        if ty == T.VAL:
            return SV(T.TREE, T.TLeaf(sv.t))
        if ty == T.INT:
            return SV(T.TREE, T.TLeaf(T.VInt(sv.t)))
        if ty == T.REAL:
            return SV(T.TREE, T.TLeaf(T.VReal(sv.t)))
        if ty == T.BOOL:
            return SV(T.TREE, T.TLeaf(T.VBool(sv.t)))
        if ty == T.ATOM:
            return SV(T.TREE, T.TLeaf(T.VStr(sv.t)))
        if isinstance(ty, T.Ref):
            return SV(T.TREE, T.TLeaf(T.VRef(sv.t)))
        if isinstance(ty, T.Seq) and ty.elem == T.TREE:
            return SV(T.TREE, T.TList(seq_len(sv), ty.arr(sv.t)))
        if ty == T.EMPTYSEQ:
            return SV(T.TREE, T.TList(z3.IntVal(0), z3.K(z3.IntSort(), T.TREE.dflt())))
        if isinstance(ty, T.Map) and ty.key == T.ATOM and ty.val == T.TREE:
            return SV(T.TREE, T.TNode(ty.has(sv.t), ty.vals(sv.t)))
        return None
    if want == T.VAL:
        if ty == T.NONE:
            return SV(T.VAL, T.VNone())
        if ty == T.INT:
            return SV(T.VAL, T.VInt(sv.t))
        if ty == T.REAL:
            return SV(T.VAL, T.VReal(sv.t))
        if ty == T.BOOL:
            return SV(T.VAL, T.VBool(sv.t))
        if ty == T.ATOM:
            return SV(T.VAL, T.VStr(sv.t))
        if isinstance(ty, T.Ref):
            return SV(T.VAL, T.VRef(sv.t))
        if isinstance(ty, (T.Tup, T.Seq, T.Map, T.Rec)):
            # a container handed over as an opaque value (e.g. the argument tuple of a command): an uninterpreted tag
            f = z3.Function('val!of_' + ty.name, ty.sort(), z3.IntSort())
            return SV(T.VAL, T.VOther(f(sv.t)))
        return None
    if isinstance(want, T.Ref) and isinstance(ty, T.Ref):
        return SV(want, sv.t)
    if isinstance(want, T.Rec) and ty == T.EMPTYDICT and not want.fields:
        return SV(want, want.dflt())
    return None


def unify(a, b):
    """Common type of two values (for if-expressions / homogeneous displays)."""
    if a == b:
        return a
    if {a, b} == {T.INT, T.REAL}:
        return T.REAL
    if a == T.NONE:
        return b if isinstance(b, T.Opt) else T.Opt(b)
    if b == T.NONE:
        return a if isinstance(a, T.Opt) else T.Opt(a)
    if isinstance(a, T.Opt) and a.inner == b:
        return a
    if isinstance(b, T.Opt) and b.inner == a:
        return b
    if a is XREAL and b in (T.INT, T.REAL):
        return XREAL
    if b is XREAL and a in (T.INT, T.REAL):
        return XREAL
    if a in (T.EMPTYDICT, T.EMPTYSEQ):
        return b
    if b in (T.EMPTYDICT, T.EMPTYSEQ):
        return a
    if isinstance(a, T.Ref) and isinstance(b, T.Ref):
        return a
    return None


def equal(a, b):
    """Python == on two symbolic values (structural; identity for references)."""
    if a.ty == b.ty:
        return a.t == b.t
    if is_num(a.ty) and is_num(b.ty) or (a.ty == T.BOOL and is_num(b.ty)) or (b.ty == T.BOOL and is_num(a.ty)):
        if a.ty is XREAL or b.ty is XREAL:
            x, y = coerce(a, XREAL), coerce(b, XREAL)
            return x.t == y.t
        return to_real(a) == to_real(b)
    u = unify(a.ty, b.ty)
    if u is not None:
        x, y = coerce(a, u), coerce(b, u)
        if x is not None and y is not None:
            return x.t == y.t
    for want in (a.ty, b.ty):
        x, y = coerce(a, want), coerce(b, want)
        if x is not None and y is not None:
            return x.t == y.t
    # values of unrelated static types are never equal
    return z3.BoolVal(False)


# --------------------------------------------------------------------------
# executor
# --------------------------------------------------------------------------

class Return(Exception):
    pass


class Exec:
    def __init__(self, ctx, contract, types, resolver, self_class=None):
        self.ctx = ctx
        self.contract = contract
        self.types = dict(types)          # declared types of names (params, locals, bound vars)
        self.resolver = resolver          # name -> Contract / GhostDef / ...
        self.self_class = self_class
        self.guards = []                  # short-circuit guards for obligations
        self.final_states = []            # (state, kind, retval)
        self.loop_ordinals = itertools.count()
        self.cur_line = 0

    # ---- obligations ----------------------------------------------------
    def oblige(self, st, goal, kind, label, text='', lineno=None):
        if self.ctx.mode in ('ghost', 'spec-assume'):
            return
        if z3.is_true(goal) and kind in ('safety',):
            return
        name = self.ctx.name_for(kind, label)
        ob = Obligation(name, kind, list(st.pc) + list(self.guards), goal,
                        lineno or self.cur_line, self.ctx.props, text)
        self.ctx.obligations.append(ob)

    def safety(self, st, cond, what):
        if self.ctx.mode != 'code':
            return
        self.oblige(st, cond, 'safety', what + '@L%d' % self.cur_line, text=what)

    # ---- type helpers -----------------------------------------------------
    def declared(self, name):
        t = self.types.get(name)
        return T.parse_type(t) if t is not None else None

    def class_fields(self, cls):
        if cls not in S.CLASSES:
            raise OutOfSubset('no class model for %s' % cls)
        return S.CLASSES[cls].all_fields()

    def field_decl_class(self, cls, field):
        """The class in the hierarchy that declares the field (heap arrays are per declaring class)."""
        cm = S.CLASSES.get(cls)
        if cm is None:
            raise OutOfSubset('no class model for %s' % cls)
        if field in cm.fields or field in cm.ghost:
            return cls
        for b in cm.bases:
            try:
                return self.field_decl_class(b, field)
            except OutOfSubset:
                pass
        raise OutOfSubset('class %s has no modelled field %s' % (cls, field))

    def heap_arr(self, st, cls, field):
        dcls = self.field_decl_class(cls, field)
        fty = T.parse_type(S.CLASSES[dcls].all_fields()[field])
        key = (dcls, field)
        if key not in st.heap:
            st.heap[key] = z3.Const('heap!%s.%s' % key, z3.ArraySort(T.RefSort, fty.sort()))
            r = z3.Int('r!wf')
            wf = fty.wf(st.heap[key][r])
            if wf:
                st.pc.append(z3.ForAll([r], z3.And(*wf), patterns=[st.heap[key][r]]))
            # first touch: the same initial array is the entry value
            o = st.old
            while o is not None:
                o.heap.setdefault(key, st.heap[key])
                o = o.old
            f = self.ghost_default_fact(key, st.heap[key], z3.Int('alloc!entry'))
            if f is not None:
                st.pc.append(f)
        return key, fty

    def is_ghost_field(self, key):
        cm = S.CLASSES.get(key[0])
        return bool(cm) and key[1] in cm.ghost

    def ghost_default_fact(self, key, arr, alloc):
        """Convention for ghost state: the Boolean ghost flags of objects that do not exist yet are False (a new object
        starts with default ghost state unless its constructor's contract says otherwise).  Kept true by construction:
        every write of a ghost field is checked to go to an allocated object (obligation `ghost-write-allocated`)."""
        if not self.is_ghost_field(key):
            return None
        fty = T.parse_type(S.CLASSES[key[0]].all_fields()[key[1]])
        if fty != T.BOOL:
            return None
        r = z3.Int('r!gd')
        self.ctx.assumptions_used.add('ghost-state convention: Boolean ghost flags of not-yet-allocated objects are False '
                                      '(ghost writes are checked to target allocated objects)')
        return z3.ForAll([r], z3.Implies(r >= alloc, z3.Not(arr[r])), patterns=[arr[r]])

    def heap_read(self, st, ref_sv, field):
        key, fty = self.heap_arr(st, ref_sv.ty.cls, field)
        return SV(fty, st.heap[key][ref_sv.t])

    def narrow(self, val, ty, st):
        """XReal -> Real needs a finiteness obligation"""
        if val.ty is XREAL and ty == T.REAL:
            self.safety(st, z3.Not(XREAL.is_inf(val.t)), 'finite-float')
            return SV(T.REAL, XREAL.val(val.t))
        return val

    def heap_write(self, st, ref_sv, field, val):
        key, fty = self.heap_arr(st, ref_sv.ty.cls, field)
        val = self.narrow(val, fty, st)
        v = coerce(val, fty)
        if v is None:
            raise OutOfSubset('cannot store %s into %s.%s : %s' % (val.ty, key[0], field, fty))
        if self.is_ghost_field(key) and fty == T.BOOL and ('$alloc', 'next') in st.heap:
            self.safety(st, ref_sv.t < st.heap[('$alloc', 'next')], 'ghost-write-allocated')
        st.heap[key] = z3.Store(st.heap[key], ref_sv.t, v.t)

    # ---- expression evaluation -----------------------------------------
    def ev(self, node, st, want=None):
        m = getattr(self, 'ev_' + type(node).__name__, None)
        if m is None:
            raise OutOfSubset('expression %s at line %s' % (type(node).__name__, getattr(node, 'lineno', '?')))
        sv = m(node, st, want)
        if want is not None and sv.ty != want:
            c = coerce(sv, want)
            if c is not None:
                return c
        return sv

    def ev_Constant(self, node, st, want):
        v = node.value
        if v is None:
            return SV(T.NONE, z3.BoolVal(True))
        if isinstance(v, bool):
            return SV(T.BOOL, z3.BoolVal(v))
        if isinstance(v, int):
            return SV(T.INT, z3.IntVal(v))
        if isinstance(v, float):
            return SV(T.REAL, z3.RealVal(repr(v)))
        if isinstance(v, str):
            return SV(T.ATOM, T.atom(v))
        raise OutOfSubset('constant %r' % (v,))

    def ev_Name(self, node, st, want):
        n = node.id
        if n in st.alias:
            return self.ev(st.alias[n], st, want)
        if n in st.env:
            return st.env[n]
        if n in st.ghost:
            return st.ghost[n]
        if n in self.ctx.module_consts:
            return self.ev(self.ctx.module_consts[n], st, want)
        if self.contract is not None and self.contract.module and self.resolver is not None:
            try:
                mod, _, _ = self.resolver.module_ast(self.contract.module)
                for d in mod.body:
                    if isinstance(d, ast.FunctionDef) and d.name == n:
                        return SV(T.Fun([], T.NONE), None, extra=('funcref', n))
            except Exception:
                pass
        if n == 'ABSENT':
            return SV(T.TREE, T.TREE.dflt())
        if n == 'EMPTY_NODE':
            return SV(T.TREE, tree_empty_node())
        raise OutOfSubset('unbound name %s (line %s)' % (n, getattr(node, 'lineno', '?')))

    def ev_Tuple(self, node, st, want):
        return self._display(node.elts, st, want)

    def ev_List(self, node, st, want):
        return self._display(node.elts, st, want)

    def _display(self, elts, st, want):
        if any(isinstance(e, ast.Starred) for e in elts):
            raise OutOfSubset('starred display')
        if isinstance(want, T.Opt):
            want = want.inner
        if isinstance(want, T.Union):
            # choose the first alternative that is a tuple/seq of the right size
            for k, a in want.alts.items():
                if isinstance(a, T.Tup) and len(a.items) == len(elts):
                    inner = self._display(elts, st, a)
                    return SV(want, want.inject(k, inner.t))
                if isinstance(a, T.Seq):
                    inner = self._display(elts, st, a)
                    return SV(want, want.inject(k, inner.t))
            raise OutOfSubset('display into union %s' % want)
        if isinstance(want, T.Tup):
            if len(want.items) != len(elts):
                raise OutOfSubset('tuple arity')
            vs = [self.ev(e, st, t) for e, t in zip(elts, want.items)]
            for v, t in zip(vs, want.items):
                if v.ty != t:
                    raise OutOfSubset('tuple item type %s vs %s' % (v.ty, t))
            return SV(want, want.mk(*[v.t for v in vs]))
        if isinstance(want, T.Seq):
            vs = [self.ev(e, st, want.elem) for e in elts]
            for v in vs:
                if v.ty != want.elem:
                    raise OutOfSubset('seq item type %s vs %s' % (v.ty, want.elem))
            return seq_lit(want.elem, [v.t for v in vs])
        if want == T.TREE:
            vs = [self.ev(e, st, T.TREE) for e in elts]
            return coerce(seq_lit(T.TREE, [v.t for v in vs]), T.TREE)
        if not elts:
            return SV(T.EMPTYSEQ, z3.BoolVal(True))
        vs = [self.ev(e, st) for e in elts]
        u = vs[0].ty
        for v in vs[1:]:
            u = unify(u, v.ty) if u is not None else None
        if u is not None and not isinstance(u, T.Ref):
            return seq_lit(u, [coerce(v, u).t for v in vs])
        tt = T.Tup([v.ty for v in vs])
        return SV(tt, tt.mk(*[v.t for v in vs]))

    def ev_Dict(self, node, st, want):
        if isinstance(want, T.Opt):
            want = want.inner
        if not node.keys:
            if want is not None:
                c = coerce(SV(T.EMPTYDICT, z3.BoolVal(True)), want)
                if c is not None:
                    return c
            return SV(T.EMPTYDICT, z3.BoolVal(True))
        if any(k is None for k in node.keys):
            raise OutOfSubset('dict unpacking')
        if isinstance(want, T.Union):
            for k, a in want.alts.items():
                if isinstance(a, (T.Rec, T.Map)) or a == T.TREE:
                    inner = self.ev_Dict(node, st, a)
                    return SV(want, want.inject(k, inner.t))
        const_keys = all(isinstance(k, ast.Constant) and isinstance(k.value, str) for k in node.keys)
        if isinstance(want, T.Rec) or (want is None and const_keys):
            if not const_keys:
                raise OutOfSubset('record with computed keys')
            if isinstance(want, T.Rec):
                vals = {}
                for k, v in zip(node.keys, node.values):
                    if k.value not in want.fields:
                        raise OutOfSubset('record key %s' % k.value)
                    x = self.ev(v, st, want.fields[k.value])
                    if x.ty != want.fields[k.value]:
                        raise OutOfSubset('record field %s: %s vs %s' % (k.value, x.ty, want.fields[k.value]))
                    vals[k.value] = x.t
                if set(vals) != set(want.fields):
                    raise OutOfSubset('record keys differ from %s' % want)
                return SV(want, want.mk(**vals))
            vals = {k.value: self.ev(v, st) for k, v in zip(node.keys, node.values)}
            rt = T.Rec({k: v.ty for k, v in vals.items()})
            return SV(rt, rt.mk(**{k: v.t for k, v in vals.items()}))
        if want == T.TREE:
            t = tree_empty_node()
            for k, v in zip(node.keys, node.values):
                kk = self.ev(k, st, T.ATOM)
                vv = self.ev(v, st, T.TREE)
                if vv.ty != T.TREE or kk.ty != T.ATOM:
                    raise OutOfSubset('tree display')
                t = tree_set(t, kk.t, vv.t)
            return SV(T.TREE, t)
        if isinstance(want, T.Map):
            m = SV(want, want.empty())
            for k, v in zip(node.keys, node.values):
                kk = self.ev(k, st, want.key)
                vv = self.ev(v, st, want.val)
                m = map_set(m, kk.t, vv.t)
            return m
        ks = [self.ev(k, st) for k in node.keys]
        vs = [self.ev(v, st) for v in node.values]
        mt = T.Map(ks[0].ty, vs[0].ty)
        m = SV(mt, mt.empty())
        for k, v in zip(ks, vs):
            m = map_set(m, coerce(k, mt.key).t, coerce(v, mt.val).t)
        return m

    def ev_UnaryOp(self, node, st, want):
        if isinstance(node.op, ast.Not):
            v = self.ev(node.operand, st)
            return SV(T.BOOL, z3.Not(truthy(v)))
        v = self.ev(node.operand, st)
        if isinstance(node.op, ast.USub):
            if v.ty in (T.INT, T.REAL):
                return SV(v.ty, -v.t)
        if isinstance(node.op, ast.UAdd) and v.ty in (T.INT, T.REAL):
            return v
        raise OutOfSubset('unary op on %s' % v.ty)

    def ev_BoolOp(self, node, st, want):
        # value semantics: result is Bool unless used as `x or default`
        vals = []
        saved = list(self.guards)
        try:
            first = self.ev(node.values[0], st)
            vals.append(first)
            for sub in node.values[1:]:
                g = truthy(vals[-1])
                self.guards.append(g if isinstance(node.op, ast.And) else z3.Not(g))
                vals.append(self.ev(sub, st))
        finally:
            self.guards = saved
        if all(v.ty == T.BOOL for v in vals):
            f = z3.And if isinstance(node.op, ast.And) else z3.Or
            return SV(T.BOOL, f(*[v.t for v in vals]))
        # non-bool operands: python returns one of the operands
        res = vals[-1]
        for v in reversed(vals[:-1]):
            u = unify(v.ty, res.ty)
            if u is None:
                if want is not None and coerce(v, want) is not None and coerce(res, want) is not None:
                    u = want
                else:
                    # fall back to Bool
                    f = z3.And if isinstance(node.op, ast.And) else z3.Or
                    return SV(T.BOOL, f(*[truthy(x) for x in vals]))
            a, b = coerce(v, u), coerce(res, u)
            if isinstance(node.op, ast.And):
                res = SV(u, z3.If(truthy(v), b.t, a.t))
            else:
                res = SV(u, z3.If(truthy(v), a.t, b.t))
        return res

    def ev_IfExp(self, node, st, want):
        c = truthy(self.ev(node.test, st))
        saved = list(self.guards)
        try:
            self.guards.append(c)
            a = self.ev(node.body, st, want)
            self.guards = saved + [z3.Not(c)]
            b = self.ev(node.orelse, st, want)
        finally:
            self.guards = saved
        u = unify(a.ty, b.ty)
        if u is None:
            raise OutOfSubset('if-expression of %s and %s' % (a.ty, b.ty))
        return SV(u, z3.If(c, coerce(a, u).t, coerce(b, u).t))

    def ev_Compare(self, node, st, want):
        left = self.ev(node.left, st)
        conj = []
        saved = list(self.guards)
        try:
            for op, rn in zip(node.ops, node.comparators):
                right = self.ev(rn, st)
                conj.append(self._compare(op, left, right, st))
                self.guards.append(conj[-1])
                left = right
        finally:
            self.guards = saved
        return SV(T.BOOL, z3.And(*conj) if len(conj) > 1 else conj[0])

    def _compare(self, op, a, b, st):
        if isinstance(op, ast.Eq):
            return equal(a, b)
        if isinstance(op, ast.NotEq):
            return z3.Not(equal(a, b))
        if isinstance(op, (ast.Is, ast.IsNot)):
            if b.ty == T.NONE or a.ty == T.NONE:
                x = a if b.ty == T.NONE else b
                if isinstance(x.ty, T.Opt):
                    r = x.ty.is_none(x.t)
                elif x.ty == T.NONE:
                    r = z3.BoolVal(True)
                elif x.ty == T.TREE:
                    r = z3.And(T.is_TLeaf(x.t), T.is_VNone(T.lval(x.t)))
                elif x.ty == T.VAL:
                    r = T.is_VNone(x.t)
                elif isinstance(x.ty, T.Union) and x.ty.alt_of(T.NONE):
                    r = x.ty.is_alt(x.t, x.ty.alt_of(T.NONE))
                else:
                    r = z3.BoolVal(False)
            elif isinstance(a.ty, T.Ref) and isinstance(b.ty, T.Ref):
                r = a.t == b.t
            elif a.ty == b.ty and a.ty in (T.TREE, T.VAL):
                # object identity of two values is not part of the value model: an unknown Boolean that can only
                # hold when the two values are equal (identity implies equality for every value the model has).
                r = self.fresh_bool('is') if hasattr(self, 'fresh_bool') else z3.FreshConst(z3.BoolSort(), 'is')
                st.pc.append(z3.Implies(r, equal(a, b)))
            else:
                raise OutOfSubset('`is` on %s, %s' % (a.ty, b.ty))
            return r if isinstance(op, ast.Is) else z3.Not(r)
        if isinstance(op, (ast.In, ast.NotIn)):
            r = self._contains(b, a, st)
            return r if isinstance(op, ast.In) else z3.Not(r)
        if isinstance(op, (ast.Lt, ast.LtE, ast.Gt, ast.GtE)):
            if a.ty is XREAL or b.ty is XREAL:
                x, y = coerce(a, XREAL), coerce(b, XREAL)
                xi, yi = XREAL.is_inf(x.t), XREAL.is_inf(y.t)
                xv, yv = XREAL.val(x.t), XREAL.val(y.t)
                if isinstance(op, ast.Lt):
                    return z3.And(z3.Not(xi), z3.Or(yi, xv < yv))
                if isinstance(op, ast.LtE):
                    return z3.Or(yi, z3.And(z3.Not(xi), xv <= yv))
                if isinstance(op, ast.Gt):
                    return z3.And(z3.Not(yi), z3.Or(xi, xv > yv))
                return z3.Or(xi, z3.And(z3.Not(yi), xv >= yv))
            if not (a.ty in (T.INT, T.REAL, T.BOOL) and b.ty in (T.INT, T.REAL, T.BOOL)):
                raise OutOfSubset('ordering on %s, %s' % (a.ty, b.ty))
            if a.ty == T.INT and b.ty == T.INT:
                x, y = a.t, b.t
            else:
                x, y = to_real(a), to_real(b)
            return {ast.Lt: x < y, ast.LtE: x <= y, ast.Gt: x > y, ast.GtE: x >= y}[type(op)]
        raise OutOfSubset('comparison %s' % type(op).__name__)

    def _contains(self, cont, item, st):
        ty = cont.ty
        if isinstance(ty, T.Fun) and cont.extra and cont.extra[0] in ('mapview', 'treeview') and cont.extra[1] == 'keys':
            return self._contains(cont.extra[2], item, st)      # `k in d.keys()`
        if isinstance(ty, T.Opt):
            self.safety(st, z3.Not(ty.is_none(cont.t)), 'in-on-None')
            return self._contains(SV(ty.inner, ty.get(cont.t)), item, st)
        if isinstance(ty, T.Map):
            k = coerce(item, ty.key)
            if k is None:
                return z3.BoolVal(False)
            return map_has(cont, k.t)
        if isinstance(ty, T.SetT):
            k = coerce(item, ty.key)
            if k is None:
                return z3.BoolVal(False)
            return cont.t[k.t]
        if ty == T.TREE:
            k = coerce(item, T.ATOM)
            if k is None:
                raise OutOfSubset('`in` Tree with key %s' % item.ty)
            self.safety(st, z3.Or(T.is_TNode(cont.t), T.is_TList(cont.t)), 'in-on-non-container')
            return z3.And(T.is_TNode(cont.t), T.thas(cont.t)[k.t])
        if isinstance(ty, T.Seq):
            x = coerce(item, ty.elem)
            if x is None:
                return z3.BoolVal(False)
            j = z3.Int('j!in%d' % next(_fresh_counter))
            return z3.Exists([j], z3.And(0 <= j, j < seq_len(cont), ty.arr(cont.t)[j] == x.t))
        if isinstance(ty, T.Rec):
            if isinstance(item.t, z3.ExprRef):
                for k in ty.fields:
                    if item.t.eq(T.atom(k)):
                        return z3.BoolVal(True)
                return z3.Or(*[item.t == T.atom(k) for k in ty.fields])
        if ty in (T.EMPTYDICT, T.EMPTYSEQ):
            return z3.BoolVal(False)
        raise OutOfSubset('`in` on %s' % ty)

    def ev_BinOp(self, node, st, want):
        a = self.ev(node.left, st)
        b = self.ev(node.right, st)
        op = node.op
        if isinstance(op, ast.Add) and isinstance(a.ty, T.Seq):
            bb = coerce(b, a.ty) if b.ty != a.ty else b
            if bb is None and b.ty == T.EMPTYSEQ:
                return a
            if bb is None:
                raise OutOfSubset('seq + %s' % b.ty)
            return seq_concat(a, bb)
        if isinstance(op, ast.Add) and a.ty == T.EMPTYSEQ and isinstance(b.ty, T.Seq):
            return b
        if a.ty is XREAL or b.ty is XREAL:
            x, y = coerce(a, XREAL), coerce(b, XREAL)
            if isinstance(op, (ast.Add, ast.Sub)):
                if isinstance(op, ast.Sub):
                    self.safety(st, z3.Not(z3.And(XREAL.is_inf(x.t), XREAL.is_inf(y.t))), 'inf-minus-inf')
                    # x - inf would be -inf: not modelled
                    self.safety(st, z3.Not(XREAL.is_inf(y.t)), 'minus-inf')
                    r = XREAL.val(x.t) - XREAL.val(y.t)
                else:
                    r = XREAL.val(x.t) + XREAL.val(y.t)
                return SV(XREAL, z3.If(z3.Or(XREAL.is_inf(x.t), XREAL.is_inf(y.t)), XREAL.inf, XREAL.fin(r)))
            raise OutOfSubset('XReal op %s' % type(op).__name__)
        if a.ty in (T.INT, T.REAL, T.BOOL) and b.ty in (T.INT, T.REAL, T.BOOL):
            both_int = a.ty in (T.INT, T.BOOL) and b.ty in (T.INT, T.BOOL)
            if both_int:
                x = coerce(a, T.INT).t
                y = coerce(b, T.INT).t
            else:
                x, y = to_real(a), to_real(b)
            rty = T.INT if both_int else T.REAL
            if isinstance(op, ast.Add):
                return SV(rty, x + y)
            if isinstance(op, ast.Sub):
                return SV(rty, x - y)
            if isinstance(op, ast.Mult):
                return SV(rty, x * y)
            if isinstance(op, ast.FloorDiv):
                self.safety(st, y != 0, 'division-by-zero')
                if both_int:
                    # python floor division == z3 div for positive divisor; general: floor
                    q = z3.If(y > 0, x / y, (-x) / (-y))
                    return SV(T.INT, q)
                raise OutOfSubset('float floor division')
            if isinstance(op, ast.Mod):
                self.safety(st, y != 0, 'modulo-by-zero')
                if both_int:
                    q = z3.If(y > 0, x / y, (-x) / (-y))
                    return SV(T.INT, x - y * q)
                raise OutOfSubset('float modulo')
            if isinstance(op, ast.Div):
                self.safety(st, y != 0, 'division-by-zero')
                if both_int:
                    # int / int goes through floats: exact only if operands and result are
                    # exactly representable (|.| < 2**53 and quotient dyadic) -- otherwise HAVOC.
                    xr, yr = z3.ToReal(x), z3.ToReal(y)
                    lim = z3.RealVal(2 ** 53)
                    exact = z3.And(xr < lim, -xr < lim, yr < lim, -yr < lim,
                                   z3.Or(y == 1, y == -1, y == 2, y == -2, y == 4, y == -4, y == 8, y == -8))
                    hv = fresh('fdiv', T.REAL)
                    return SV(T.REAL, z3.If(exact, xr / yr, hv))
                return SV(T.REAL, x / y)
            raise OutOfSubset('arithmetic op %s' % type(op).__name__)
        raise OutOfSubset('binop %s on %s, %s' % (type(op).__name__, a.ty, b.ty))

    def ev_Subscript(self, node, st, want):
        base = self.ev(node.value, st)
        return self._subscript(base, node.slice, st)

    def _subscript(self, base, sl, st):
        ty = base.ty
        if isinstance(ty, T.Opt):
            self.safety(st, z3.Not(ty.is_none(base.t)), 'subscript-on-None')
            return self._subscript(SV(ty.inner, ty.get(base.t)), sl, st)
        if isinstance(sl, ast.Slice):
            if sl.step is not None:
                raise OutOfSubset('slice step')
            if not isinstance(ty, T.Seq):
                raise OutOfSubset('slice of %s' % ty)
            lo = self.ev(sl.lower, st, T.INT).t if sl.lower is not None else None
            hi = self.ev(sl.upper, st, T.INT).t if sl.upper is not None else None
            return seq_slice(base, lo, hi)
        if isinstance(ty, T.Seq):
            i = self.ev(sl, st, T.INT)
            if i.ty != T.INT:
                raise OutOfSubset('seq index of type %s' % i.ty)
            n = seq_len(base)
            idx = i.t
            if isinstance(sl, ast.UnaryOp) and isinstance(sl.op, ast.USub):
                idx = n + i.t
                self.safety(st, z3.And(0 <= idx, idx < n), 'index-in-range')
            elif z3.is_int_value(i.t):
                if i.t.as_long() < 0:
                    idx = n + i.t
                self.safety(st, z3.And(0 <= idx, idx < n), 'index-in-range')
            else:
                self.safety(st, z3.And(-n <= idx, idx < n), 'index-in-range')
                idx = z3.If(i.t < 0, n + i.t, i.t)
            return seq_get(base, idx)
        if isinstance(ty, T.Map):
            k = self.ev(sl, st, ty.key)
            if k.ty != ty.key:
                raise OutOfSubset('map key %s vs %s' % (k.ty, ty.key))
            self.safety(st, map_has(base, k.t), 'key-present')
            return map_get(base, k.t)
        if isinstance(ty, T.Rec):
            if not (isinstance(sl, ast.Constant) and isinstance(sl.value, str)):
                raise OutOfSubset('record with computed key')
            if sl.value not in ty.fields:
                self.safety(st, z3.BoolVal(False), 'key-present')
                raise OutOfSubset('record key %s missing' % sl.value)
            return SV(ty.fields[sl.value], ty.get(base.t, sl.value))
        if isinstance(ty, T.Tup):
            if not (isinstance(sl, ast.Constant) and isinstance(sl.value, int)):
                raise OutOfSubset('tuple with computed index')
            return SV(ty.items[sl.value], ty.get(base.t, sl.value))
        if ty == T.TREE:
            k = self.ev(sl, st)
            if k.ty == T.ATOM:
                self.safety(st, z3.And(T.is_TNode(base.t), T.thas(base.t)[k.t]), 'key-present')
                return SV(T.TREE, T.tkids(base.t)[k.t])
            if k.ty == T.INT:
                self.safety(st, z3.And(T.is_TList(base.t), 0 <= k.t, k.t < T.llen(base.t)), 'index-in-range')
                return SV(T.TREE, T.larr(base.t)[k.t])
        if isinstance(ty, T.Union):
            # subscript allowed if exactly one alternative supports it: obligation that we are in it
            cands = [(k, a) for k, a in ty.alts.items() if isinstance(a, (T.Tup, T.Seq, T.Map, T.Rec)) or a == T.TREE]
            if len(cands) == 1:
                k, a = cands[0]
                self.safety(st, ty.is_alt(base.t, k), 'subscript-on-' + k)
                return self._subscript(SV(a, ty.get(base.t, k)), sl, st)
        raise OutOfSubset('subscript on %s' % ty)

    def ev_Attribute(self, node, st, want):
        # module constants
        if isinstance(node.value, ast.Name) and node.value.id == 'math' and node.attr == 'inf':
            return SV(XREAL, XREAL.inf)
        base = self.ev(node.value, st)
        if isinstance(base.ty, T.Opt) and isinstance(base.ty.inner, T.Ref):
            self.safety(st, z3.Not(base.ty.is_none(base.t)), 'attribute-on-None')
            base = SV(base.ty.inner, base.ty.get(base.t))
        if isinstance(base.ty, T.Ref):
            return self.heap_read(st, base, node.attr)
        raise OutOfSubset('attribute %s on %s' % (node.attr, base.ty))

    def ev_Lambda(self, node, st, want):
        return SV(T.Fun([], T.NONE), None, extra=('lambda', node, st))

    def ev_ListComp(self, node, st, want):
        """[expr for x in seq]  (one generator, no filter): pointwise image of a sequence"""
        if len(node.generators) != 1 or node.generators[0].ifs:
            raise OutOfSubset('list comprehension with filter / several generators')
        global _FRESH_LOG
        g = node.generators[0]
        seq = self.ev(g.iter, st)
        if isinstance(seq.ty, T.Opt) and isinstance(seq.ty.inner, T.Seq):
            # iterating an Optional sequence: None would raise TypeError
            self.safety(st, z3.Not(seq.ty.is_none(seq.t)), 'iteration-over-None')
            seq = SV(seq.ty.inner, seq.ty.get(seq.t))
        if not isinstance(seq.ty, T.Seq):
            raise OutOfSubset('list comprehension over %s' % seq.ty)
        j = z3.Int('j!lc%d' % next(_fresh_counter))
        st2 = st.copy()
        if isinstance(g.target, ast.Name):
            st2.env[g.target.id] = seq_get(seq, j)
            st2.alias.pop(g.target.id, None)
        elif isinstance(g.target, ast.Tuple) and all(isinstance(e, ast.Name) for e in g.target.elts) \
                and isinstance(seq.ty.elem, T.Tup) and len(seq.ty.elem.items) == len(g.target.elts):
            el = seq_get(seq, j)
            for idx, e in enumerate(g.target.elts):
                st2.env[e.id] = SV(seq.ty.elem.items[idx], seq.ty.elem.get(el.t, idx))
                st2.alias.pop(e.id, None)
        else:
            raise OutOfSubset('list comprehension target')
        saved = list(self.guards)
        in_range = z3.And(0 <= j, j < seq_len(seq))
        self.guards.append(in_range)
        prev_log, _FRESH_LOG = _FRESH_LOG, []
        n_pc = len(st2.pc)
        heap_before = dict(st2.heap)
        try:
            elem_want = want.elem if isinstance(want, T.Seq) else None
            v = self.ev(node.elt, st2, elem_want)
        finally:
            self.guards = saved
            created, _FRESH_LOG = _FRESH_LOG, prev_log
            if prev_log is not None:
                prev_log.extend(created)
        vt = v.t
        new_facts = st2.pc[n_pc:]
        if new_facts or created:
            # the element expression called functions by contract: their results are one value PER ELEMENT (skolem
            # functions of the index), and the facts their contracts give hold for every index in range
            if _heap_modified(st, st2, heap_before):
                raise OutOfSubset('list comprehension whose element expression modifies the heap')
            subst = [(c, z3.Function('%s!sk' % c.decl().name(), z3.IntSort(), c.sort())(j)) for c in created]
            if subst:
                vt = z3.substitute(vt, *subst)
                new_facts = [z3.substitute(f, *subst) for f in new_facts]
            if new_facts:
                body = z3.Implies(in_range, z3.And(*new_facts))
                st.pc.append(z3.ForAll([j], body, patterns=[subst[0][1]] if subst else []))
        rty = T.Seq(v.ty)
        arr = z3.Lambda([j], z3.If(in_range, vt, v.ty.dflt()))
        return SV(rty, rty.mk(seq_len(seq), arr))

    def _dictcomp_tree(self, node, g, m, kname, vname, st):
        """{k: v for k, v in d.items() if cond}  over a nested dict (Tree): a filter that keeps keys and values"""
        if not (isinstance(node.key, ast.Name) and node.key.id == kname and vname and
                isinstance(node.value, ast.Name) and node.value.id == vname):
            raise OutOfSubset('dict comprehension over a nested dict that is not a plain filter')
        self.safety(st, T.is_TNode(m.t), 'items()-of-non-dict')
        k = z3.Const('k!dt%d' % next(_fresh_counter), T.AtomSort)
        st2 = st.copy()
        st2.env[kname] = SV(T.ATOM, k)
        st2.env[vname] = SV(T.TREE, T.tkids(m.t)[k])
        st2.alias.pop(kname, None)
        st2.alias.pop(vname, None)
        has = T.thas(m.t)[k]
        saved = list(self.guards)
        self.guards.append(has)
        n_pc = len(st2.pc)
        try:
            cond = z3.BoolVal(True)
            for c in g.ifs:
                cond = z3.And(cond, truthy(self.ev(c, st2)))
        finally:
            self.guards = saved
        if st2.pc[n_pc:]:
            raise OutOfSubset('dict comprehension filter that calls functions by contract')
        newhas = z3.Lambda([k], z3.And(has, cond))
        newkids = z3.Lambda([k], z3.If(z3.And(has, cond), T.tkids(m.t)[k], T.TREE.dflt()))
        return SV(T.TREE, T.TNode(newhas, newkids))

    def ev_DictComp(self, node, st, want):
        """{kexpr: vexpr for k, v in m.items() if cond}  with kexpr == k  (filter / map over a dict)"""
        if len(node.generators) != 1:
            raise OutOfSubset('dict comprehension with several generators')
        g = node.generators[0]
        it = g.iter
        if not (isinstance(it, ast.Call) and isinstance(it.func, ast.Attribute) and it.func.attr == 'items'):
            if isinstance(it, ast.Attribute) or isinstance(it, ast.Name):
                # {k: expr for k in m}
                m = self.ev(it, st)
                kname, vname = (g.target.id if isinstance(g.target, ast.Name) else None), None
            else:
                raise OutOfSubset('dict comprehension source')
        else:
            m = self.ev(it.func.value, st)
            if not (isinstance(g.target, ast.Tuple) and len(g.target.elts) == 2):
                raise OutOfSubset('dict comprehension target')
            kname, vname = g.target.elts[0].id, g.target.elts[1].id
        if m.ty == T.TREE:
            return self._dictcomp_tree(node, g, m, kname, vname, st)
        if not isinstance(m.ty, T.Map):
            raise OutOfSubset('dict comprehension over %s' % m.ty)
        if not (isinstance(node.key, ast.Name) and node.key.id == kname):
            raise OutOfSubset('dict comprehension that renames keys')
        k = z3.Const('k!dc%d' % next(_fresh_counter), m.ty.key.sort())
        st2 = st.copy()
        st2.env[kname] = SV(m.ty.key, k)
        st2.alias.pop(kname, None)
        if vname:
            st2.env[vname] = map_get(m, k)
            st2.alias.pop(vname, None)
        has = map_has(m, k)
        saved = list(self.guards)
        self.guards.append(has)
        try:
            cond = z3.BoolVal(True)
            for c in g.ifs:
                cond = z3.And(cond, truthy(self.ev(c, st2)))
            self.guards.append(cond)
            want_val = want.val if isinstance(want, T.Map) else None
            n_pc = len(st2.pc)
            heap_before = dict(st2.heap)
            v = self.ev(node.value, st2, want_val)
        finally:
            self.guards = saved
        new_facts = st2.pc[n_pc:]
        if new_facts:
            # facts assumed while evaluating the value (postconditions of callees): only sound to keep if the
            # value does not depend on the comprehension variable and nothing on the heap was modified
            if _heap_modified(st, st2, heap_before):
                raise OutOfSubset('dict comprehension whose value expression modifies the heap')
            names = {kname} | ({vname} if vname else set())
            for sub in ast.walk(node.value):
                if isinstance(sub, ast.Name) and sub.id in names and isinstance(node.value, ast.Call):
                    raise OutOfSubset('dict comprehension calling a function on the comprehension variable')
            st.pc.extend(new_facts)
        rty = T.Map(m.ty.key, v.ty)
        newhas = z3.Lambda([k], z3.And(has, cond))
        newval = z3.Lambda([k], z3.If(z3.And(has, cond), v.t, v.ty.dflt()))
        return SV(rty, rty.mk(newhas, newval))

    def ev_Call(self, node, st, want):
        from .calls import eval_call
        return eval_call(self, node, st, want)

    def ev_JoinedStr(self, node, st, want):
        return SV(T.ATOM, fresh('fstr', T.ATOM))

    # ---- lvalues ---------------------------------------------------------
    def assign(self, target, val, st):
        if isinstance(target, ast.Name):
            n = target.id
            if n in st.alias:
                # rebinding a borrowed name drops the borrow
                del st.alias[n]
            dt = self.declared(n)
            if dt is None and n in st.env and st.env[n].ty != val.ty:
                # keep type of first assignment if coercible
                c = coerce(val, st.env[n].ty)
                if c is not None:
                    val = c
                else:
                    u = unify(st.env[n].ty, val.ty)
                    if u is None:
                        raise OutOfSubset('local %s changes type %s -> %s (declare it in the contract)'
                                          % (n, st.env[n].ty, val.ty))
                    val = coerce(val, u)
            if dt is not None:
                val = self.narrow(val, dt, st)
                c = coerce(val, dt)
                if c is None:
                    raise OutOfSubset('cannot assign %s to %s : %s' % (val.ty, n, dt))
                val = c
            st.env[n] = val
            return
        if isinstance(target, (ast.Tuple, ast.List)):
            self._unpack(target.elts, val, st)
            return
        if isinstance(target, ast.Attribute):
            base = self.ev(target.value, st)
            if isinstance(base.ty, T.Ref):
                self.heap_write(st, base, target.attr, val)
                return
            raise OutOfSubset('attribute store on %s' % base.ty)
        if isinstance(target, ast.Subscript):
            base = self.ev(target.value, st)
            newbase = self._store_sub(base, target.slice, val, st)
            self.assign_back(target.value, newbase, st)
            return
        raise OutOfSubset('assignment target %s' % type(target).__name__)

    def assign_back(self, target, val, st):
        """Write a modified container value back into the place it came from."""
        if isinstance(target, ast.Name):
            n = target.id
            if n in st.alias:
                self.assign_back(st.alias[n], val, st)
                return
            if n in st.env:
                cur = st.env[n]
                c = coerce(val, cur.ty)
                if c is None:
                    raise OutOfSubset('write-back %s into %s:%s' % (val.ty, n, cur.ty))
                st.env[n] = c
                return
            raise OutOfSubset('write-back to unbound %s' % n)
        if isinstance(target, ast.Attribute):
            base = self.ev(target.value, st)
            if isinstance(base.ty, T.Ref):
                self.heap_write(st, base, target.attr, val)
                return
        if isinstance(target, ast.Subscript):
            base = self.ev(target.value, st)
            newbase = self._store_sub(base, target.slice, val, st, existing=True)
            self.assign_back(target.value, newbase, st)
            return
        if isinstance(target, ast.Call):
            # value came from a call (e.g. d.get(k)): not a place
            return
        raise OutOfSubset('write-back target %s' % type(target).__name__)

    def _store_sub(self, base, sl, val, st, existing=False):
        ty = base.ty
        if isinstance(ty, T.Opt):
            self.safety(st, z3.Not(ty.is_none(base.t)), 'store-on-None')
            inner = self._store_sub(SV(ty.inner, ty.get(base.t)), sl, val, st, existing)
            return SV(ty, ty.some(inner.t))
        if isinstance(ty, T.Map):
            k = self.ev(sl, st, ty.key)
            v = coerce(val, ty.val)
            if v is None or k.ty != ty.key:
                raise OutOfSubset('map store %s[%s] = %s' % (ty, k.ty, val.ty))
            return map_set(base, k.t, v.t)
        if isinstance(ty, T.Rec):
            if not (isinstance(sl, ast.Constant) and sl.value in ty.fields):
                raise OutOfSubset('record store with key %s' % ast.dump(sl))
            v = coerce(val, ty.fields[sl.value])
            if v is None:
                raise OutOfSubset('record field %s : %s = %s' % (sl.value, ty.fields[sl.value], val.ty))
            return SV(ty, ty.set(base.t, sl.value, v.t))
        if ty == T.TREE:
            k = self.ev(sl, st)
            v = coerce(val, T.TREE)
            if v is None:
                raise OutOfSubset('tree store of %s' % val.ty)
            if k.ty == T.ATOM:
                self.safety(st, T.is_TNode(base.t), 'item-assignment-on-non-dict')
                return SV(T.TREE, tree_set(base.t, k.t, v.t))
            if k.ty == T.INT:
                self.safety(st, z3.And(T.is_TList(base.t), 0 <= k.t, k.t < T.llen(base.t)), 'index-in-range')
                return SV(T.TREE, T.TList(T.llen(base.t), z3.Store(T.larr(base.t), k.t, v.t)))
        if isinstance(ty, T.Tup):
            if not (isinstance(sl, ast.Constant) and isinstance(sl.value, int)):
                raise OutOfSubset('tuple store with computed index')
            if not existing:
                raise OutOfSubset('item assignment on a tuple')
            # only reached as the write-back of an in-place mutation of a mutable component
            i = sl.value
            v = coerce(val, ty.items[i])
            parts = [v.t if j == i else ty.get(base.t, j) for j in range(len(ty.items))]
            return SV(ty, ty.mk(*parts))
        if ty == T.EMPTYDICT:
            raise OutOfSubset('store into untyped {} (declare the local in the contract)')
        if isinstance(ty, T.Seq):
            i = self.ev(sl, st, T.INT)
            v = coerce(val, ty.elem)
            n = seq_len(base)
            idx = i.t
            if z3.is_int_value(i.t) and i.t.as_long() < 0 or (isinstance(sl, ast.UnaryOp) and isinstance(sl.op, ast.USub)):
                idx = n + i.t
            self.safety(st, z3.And(0 <= idx, idx < n), 'index-in-range')
            return SV(ty, ty.mk(n, z3.Store(ty.arr(base.t), idx, v.t)))
        if isinstance(ty, T.Union):
            cands = [(k, a) for k, a in ty.alts.items() if isinstance(a, (T.Map, T.Rec, T.Seq)) or a == T.TREE]
            if len(cands) == 1:
                k, a = cands[0]
                self.safety(st, ty.is_alt(base.t, k), 'store-on-' + k)
                inner = self._store_sub(SV(a, ty.get(base.t, k)), sl, val, st, existing)
                return SV(ty, ty.inject(k, inner.t))
        raise OutOfSubset('subscript store on %s' % ty)

    def _unpack(self, elts, val, st):
        ty = val.ty
        if isinstance(ty, T.Tup):
            if len(ty.items) != len(elts):
                self.safety(st, z3.BoolVal(False), 'unpack-arity')
                raise OutOfSubset('unpack arity')
            for i, e in enumerate(elts):
                self.assign(e, SV(ty.items[i], ty.get(val.t, i)), st)
            return
        if isinstance(ty, T.Seq):
            self.safety(st, seq_len(val) == len(elts), 'unpack-arity')
            for i, e in enumerate(elts):
                self.assign(e, seq_get(val, z3.IntVal(i)), st)
            return
        if isinstance(ty, T.Union):
            cands = [(k, a) for k, a in ty.alts.items() if isinstance(a, T.Tup) and len(a.items) == len(elts)]
            if len(cands) == 1:
                k, a = cands[0]
                self.safety(st, ty.is_alt(val.t, k), 'unpack-of-' + k)
                return self._unpack(elts, SV(a, ty.get(val.t, k)), st)
        raise OutOfSubset('unpacking of %s' % ty)

    # ---- feasibility -------------------------------------------------------
    def feasible(self, st):
        """Cheap path pruning: only small, quantifier-free conjuncts of the path condition are used
        (dropping assumptions can only keep more paths alive, never prune a feasible one)."""
        s = z3.Solver()
        s.set('timeout', 300)
        s.add(T.atoms_distinct())
        for a in st.pc:
            if _small_qf(a, 150):
                s.add(a)
        r = s.check()
        if r == z3.unsat:
            self.ctx.infeasible += 1
            return False
        return True


def _small_qf(e, cap):
    """quantifier-free and at most `cap` AST nodes"""
    seen = set()
    stack = [e]
    n = 0
    while stack:
        x = stack.pop()
        i = x.get_id()
        if i in seen:
            continue
        seen.add(i)
        n += 1
        if n > cap or z3.is_quantifier(x):
            return False
        if z3.is_app(x):
            stack.extend(x.children())
    return True
