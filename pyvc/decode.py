"""Decode z3 model values into plain Python objects (for replay of counterexamples)."""
import z3
from fractions import Fraction

from . import ty as T
from .symex import XREAL


class Undecodable(Exception):
    pass


def _ev(model, t):
    return model.eval(t, model_completion=True)


def _int(model, t):
    v = _ev(model, t)
    if z3.is_int_value(v):
        return v.as_long()
    raise Undecodable('int %s' % v)


def atom_name(model, t):
    v = _ev(model, t)
    for s, c in T._atoms.items():
        if _ev(model, c).eq(v):
            return s
    # a fresh atom: name it after the model value
    return 'k_' + ''.join(ch for ch in str(v) if ch.isalnum())[-6:]


def decode_val(model, t):
    v = _ev(model, t)
    if z3.is_true(_ev(model, T.is_VNone(v))):
        return None
    if z3.is_true(_ev(model, T.is_VInt(v))):
        return _int(model, T.vint(v))
    if z3.is_true(_ev(model, T.is_VReal(v))):
        return real(model, T.vreal(v))
    if z3.is_true(_ev(model, T.is_VBool(v))):
        return z3.is_true(_ev(model, T.vbool(v)))
    if z3.is_true(_ev(model, T.is_VStr(v))):
        return atom_name(model, T.vstr(v))
    if z3.is_true(_ev(model, T.is_VRef(v))):
        return {'$ref': _int(model, T.vref(v))}
    return {'$other': _int(model, T.vother(v))}


def real(model, t):
    v = _ev(model, t)
    if z3.is_rational_value(v):
        f = Fraction(v.numerator_as_long(), v.denominator_as_long())
        return float(f) if f.denominator != 1 else float(f.numerator)
    if z3.is_algebraic_value(v):
        return float(v.approx(10).as_fraction())
    raise Undecodable('real %s' % v)


def decode_tree(model, t, depth=0, candidates=None):
    if depth > 6:
        raise Undecodable('tree too deep')
    v = _ev(model, t)
    if z3.is_true(_ev(model, T.is_TLeaf(v))):
        return decode_val(model, T.lval(v))
    if z3.is_true(_ev(model, T.is_TList(v))):
        n = _int(model, T.llen(v))
        if n > 12:
            raise Undecodable('long list')
        return [decode_tree(model, T.larr(v)[i], depth + 1, candidates) for i in range(max(n, 0))]
    out = {}
    for k in key_candidates(model, T.thas(v), T.AtomSort, candidates):
        if z3.is_true(_ev(model, T.thas(v)[k])):
            out[atom_name(model, k)] = decode_tree(model, T.tkids(v)[k], depth + 1, candidates)
    return out


def key_candidates(model, has_arr, sort, extra=None):
    """Candidate keys for which a has-array may be true: literal atoms, universe of the sort in
    the model, and explicit indices of the array's model value."""
    cands = []
    seen = set()

    def add(c):
        s = c.sexpr()
        if s not in seen:
            seen.add(s)
            cands.append(c)
    if sort == T.AtomSort:
        for c in T._atoms.values():
            add(_ev(model, c))
    try:
        uni = model.get_universe(sort)
        if uni:
            for c in uni:
                add(c)
    except z3.Z3Exception:
        pass
    v = _ev(model, has_arr)
    # walk store chains
    cur = v
    guard = 0
    while z3.is_app(cur) and cur.decl().kind() == z3.Z3_OP_STORE and guard < 64:
        add(cur.arg(1))
        cur = cur.arg(0)
        guard += 1
    if z3.is_as_array(cur) or z3.is_quantifier(cur) or (z3.is_app(cur) and cur.decl().kind() not in (z3.Z3_OP_CONST_ARRAY,)):
        pass
    for c in (extra or []):
        add(c)
    return cands


def decode_value(model, sv):
    ty, t = sv.ty, sv.t
    if ty == T.INT:
        return _int(model, t)
    if ty == T.REAL:
        return real(model, t)
    if ty == T.BOOL:
        return z3.is_true(_ev(model, t))
    if ty == T.ATOM:
        return atom_name(model, t)
    if ty == T.VAL:
        return decode_val(model, t)
    if ty == T.TREE:
        return decode_tree(model, t)
    if ty is XREAL:
        if z3.is_true(_ev(model, XREAL.is_inf(t))):
            return float('inf')
        return real(model, XREAL.val(t))
    if isinstance(ty, T.Seq):
        n = _int(model, ty.len(t))
        if n > 16 or n < 0:
            raise Undecodable('seq length %d' % n)
        return tuple(decode_value(model, type(sv)(ty.elem, ty.arr(t)[i])) for i in range(n))
    if isinstance(ty, T.Opt):
        if z3.is_true(_ev(model, ty.is_none(t))):
            return None
        return decode_value(model, type(sv)(ty.inner, ty.get(t)))
    if isinstance(ty, T.Tup):
        return tuple(decode_value(model, type(sv)(it, ty.get(t, i))) for i, it in enumerate(ty.items))
    if isinstance(ty, T.Rec):
        return {k: decode_value(model, type(sv)(ft, ty.get(t, k))) for k, ft in ty.fields.items()}
    if isinstance(ty, T.Map):
        out = {}
        for k in key_candidates(model, ty.has(t), ty.key.sort()):
            if z3.is_true(_ev(model, ty.has(t)[k])):
                kk = decode_value(model, type(sv)(ty.key, k))
                out[kk] = decode_value(model, type(sv)(ty.val, ty.vals(t)[k]))
        return out
    if isinstance(ty, T.Ref):
        return {'$ref': _int(model, t)}
    if isinstance(ty, T.Union):
        for k, a in ty.alts.items():
            if z3.is_true(_ev(model, ty.is_alt(t, k))):
                if a in (T.EMPTYDICT,):
                    return {}
                if a == T.NONE:
                    return None
                if a == T.EMPTYSEQ:
                    return ()
                return decode_value(model, type(sv)(a, ty.get(t, k)))
    raise Undecodable('type %s' % ty)


def decode_inputs(model, old_state, params):
    """Decode the entry values of the parameters (the counterexample input)."""
    if model is None:
        return None
    out = {}
    for p in params:
        sv = old_state.env.get(p)
        if sv is None:
            continue
        if isinstance(sv.ty, T.Fun):
            out[p] = '<function>'
            continue
        try:
            out[p] = decode_value(model, sv)
        except (Undecodable, z3.Z3Exception, AttributeError) as e:
            out[p] = {'$undecodable': str(e)[:100]}
    return out
