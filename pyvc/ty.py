"""PyVC types and their SMT sorts.

Every Python value that a function under contract manipulates is given a
static type (from the contract's `types`, inferred forward for locals) and is
represented by one z3 term of the corresponding sort.

  Int            mathematical integers (exact for Python ints)
  Real           Python floats treated as mathematical reals  (ASSUMPTION, listed in evidence)
  Bool
  Atom           strings / hashable keys: uninterpreted sort, equality only,
                 distinct constants for the literals mentioned
  Val            opaque leaf value (datatype with a few recognisable shapes)
  Seq[T]         tuple / list with value semantics: mk(len:Int, arr:Array Int T),
                 kept normalised (arr[j] = dflt outside 0..len-1) so that
                 extensional equality is term equality
  Map[K,V]       dict: mk(has:Array K Bool, val:Array K V) normalised the same way
                 (iteration order is NOT modelled: loops over maps are
                 verified for an arbitrary order)
  Opt[T]         Optional
  Tup[T1,..]     fixed-length heterogeneous tuple
  Rec{a:T,..}    dict with a fixed set of literal string keys
  Ref[C]         object reference with identity; fields live in heap arrays
  Tree           nested dict:  TLeaf(Val) | TNode(has, kids) | TList(len, arr)
  Fun[A..->R]    pure function parameter (uninterpreted)
"""
import z3

_PRELUDE = """
(declare-sort Atom 0)
(declare-datatypes ((Val 0)) (((VNone) (VInt (vint Int)) (VReal (vreal Real)) (VBool (vbool Bool))
   (VStr (vstr Atom)) (VRef (vref Int)) (VOther (vother Int)))))
(declare-datatypes ((Tree 0)) (((TLeaf (lval Val))
   (TNode (thas (Array Atom Bool)) (tkids (Array Atom Tree)))
   (TList (llen Int) (larr (Array Int Tree))))))
(declare-const c0 Tree)
(assert (= c0 c0))
"""

_asts = z3.parse_smt2_string(_PRELUDE)
TreeSort = _asts[0].arg(0).sort()
TLeaf, TNode, TList = (TreeSort.constructor(i) for i in range(3))
is_TLeaf, is_TNode, is_TList = (TreeSort.recognizer(i) for i in range(3))
lval = TreeSort.accessor(0, 0)
thas, tkids = TreeSort.accessor(1, 0), TreeSort.accessor(1, 1)
llen, larr = TreeSort.accessor(2, 0), TreeSort.accessor(2, 1)
ValSort = lval.range()
AtomSort = thas.range().domain()
VNone, VInt, VReal, VBool, VStr, VRef, VOther = (ValSort.constructor(i) for i in range(7))
is_VNone, is_VInt, is_VReal, is_VBool, is_VStr, is_VRef, is_VOther = (ValSort.recognizer(i) for i in range(7))
vint, vreal, vbool, vstr, vref, vother = (ValSort.accessor(i, 0) for i in range(1, 7))
RefSort = z3.IntSort()          # references are integers; 0 is never allocated (None is Opt)

_atoms = {}


def atom(s):
    """Distinct constant for a string literal (distinctness asserted per VC)."""
    if s not in _atoms:
        _atoms[s] = z3.Const('atom!' + repr(s), AtomSort)
    return _atoms[s]


def atoms_distinct():
    vs = list(_atoms.values())
    return z3.Distinct(*vs) if len(vs) > 1 else z3.BoolVal(True)


class Ty:
    name = '?'

    def __repr__(self):
        return self.name

    def __eq__(self, other):
        return isinstance(other, Ty) and self.name == other.name

    def __hash__(self):
        return hash(self.name)

    def sort(self):
        raise NotImplementedError(self.name)

    def dflt(self):
        """The default element used to normalise arrays of this type."""
        return z3.Const('dflt!' + self.name, self.sort())

    def wf(self, t):
        """Well-formedness of a symbolic input of this type (list of Bool)."""
        return []


class _Prim(Ty):
    def __init__(self, name, sort):
        self.name, self._sort = name, sort

    def sort(self):
        return self._sort


INT = _Prim('Int', z3.IntSort())
REAL = _Prim('Real', z3.RealSort())
BOOL = _Prim('Bool', z3.BoolSort())
ATOM = _Prim('Atom', AtomSort)
VAL = _Prim('Val', ValSort)
NONE = _Prim('NoneType', z3.BoolSort())      # the literal None before coercion
EMPTYDICT = _Prim('EmptyDict', z3.BoolSort())  # the literal {} before coercion
EMPTYSEQ = _Prim('EmptySeq', z3.BoolSort())  # the literal [] / () before coercion
STR = ATOM


class _Tree(Ty):
    name = 'Tree'

    def sort(self):
        return TreeSort

    def dflt(self):
        return TLeaf(VNone())

    def wf(self, t):
        return []


TREE = _Tree()

_dt_cache = {}


def _dt(name, build):
    if name not in _dt_cache:
        _dt_cache[name] = build()
    return _dt_cache[name]


def _mangle(s):
    out = []
    for ch in s:
        out.append(ch if ch.isalnum() else '_')
    return ''.join(out)


class Seq(Ty):
    def __init__(self, elem):
        self.elem = elem
        self.name = 'Seq[%s]' % elem.name

    def sort(self):
        def build():
            d = z3.Datatype('Seq_' + _mangle(self.elem.name))
            d.declare('mk', ('len', z3.IntSort()), ('arr', z3.ArraySort(z3.IntSort(), self.elem.sort())))
            return d.create()
        return _dt(self.name, build)

    def mk(self, n, arr):
        return self.sort().constructor(0)(n, arr)

    def len(self, t):
        return z3.simplify(self.sort().accessor(0, 0)(t)) if False else self.sort().accessor(0, 0)(t)

    def arr(self, t):
        return self.sort().accessor(0, 1)(t)

    def empty(self):
        return self.mk(z3.IntVal(0), z3.K(z3.IntSort(), self.elem.dflt()))

    def dflt(self):
        return self.empty()

    def wf(self, t):
        j = z3.Int('j!wf')
        a = self.arr(t)
        out = [self.len(t) >= 0,
               z3.ForAll([j], z3.Implies(z3.Or(j < 0, j >= self.len(t)), a[j] == self.elem.dflt()),
                         patterns=[a[j]])]
        sub = self.elem.wf(a[j])
        if sub:
            out.append(z3.ForAll([j], z3.Implies(z3.And(0 <= j, j < self.len(t)), z3.And(*sub)), patterns=[a[j]]))
        return out


class Map(Ty):
    def __init__(self, key, val):
        self.key, self.val = key, val
        self.name = 'Map[%s,%s]' % (key.name, val.name)

    def sort(self):
        def build():
            d = z3.Datatype('Map_' + _mangle(self.key.name) + '__' + _mangle(self.val.name))
            d.declare('mk', ('has', z3.ArraySort(self.key.sort(), z3.BoolSort())),
                      ('val', z3.ArraySort(self.key.sort(), self.val.sort())))
            return d.create()
        return _dt(self.name, build)

    def mk(self, has, val):
        return self.sort().constructor(0)(has, val)

    def has(self, t):
        return self.sort().accessor(0, 0)(t)

    def vals(self, t):
        return self.sort().accessor(0, 1)(t)

    def empty(self):
        return self.mk(z3.K(self.key.sort(), z3.BoolVal(False)), z3.K(self.key.sort(), self.val.dflt()))

    def dflt(self):
        return self.empty()

    def wf(self, t):
        k = z3.Const('k!wf', self.key.sort())
        out = [z3.ForAll([k], z3.Implies(z3.Not(self.has(t)[k]), self.vals(t)[k] == self.val.dflt()),
                         patterns=[self.vals(t)[k]])]
        sub = self.val.wf(self.vals(t)[k])
        if sub:
            out.append(z3.ForAll([k], z3.Implies(self.has(t)[k], z3.And(*sub)), patterns=[self.vals(t)[k]]))
        return out


class Opt(Ty):
    def __init__(self, inner):
        self.inner = inner
        self.name = 'Opt[%s]' % inner.name

    def sort(self):
        def build():
            d = z3.Datatype('Opt_' + _mangle(self.inner.name))
            d.declare('none')
            d.declare('some', ('get', self.inner.sort()))
            return d.create()
        return _dt(self.name, build)

    def none(self):
        return self.sort().constructor(0)()

    def some(self, v):
        return self.sort().constructor(1)(v)

    def is_none(self, t):
        return self.sort().recognizer(0)(t)

    def get(self, t):
        return self.sort().accessor(1, 0)(t)

    def dflt(self):
        return self.none()

    def wf(self, t):
        sub = self.inner.wf(self.get(t))
        return [z3.Implies(z3.Not(self.is_none(t)), z3.And(*sub))] if sub else []


class Tup(Ty):
    def __init__(self, items):
        self.items = list(items)
        self.name = 'Tup[%s]' % ','.join(i.name for i in self.items)

    def sort(self):
        def build():
            d = z3.Datatype('Tup_' + _mangle(self.name))
            d.declare('mk', *[('f%d' % i, t.sort()) for i, t in enumerate(self.items)])
            return d.create()
        return _dt(self.name, build)

    def mk(self, *vs):
        return self.sort().constructor(0)(*vs)

    def get(self, t, i):
        return self.sort().accessor(0, i)(t)

    def dflt(self):
        return self.mk(*[i.dflt() for i in self.items])

    def wf(self, t):
        out = []
        for i, it in enumerate(self.items):
            out += it.wf(self.get(t, i))
        return out


class Rec(Ty):
    """A dict with a fixed set of literal string keys, e.g. {'time':Real,'update':U}."""

    def __init__(self, fields):
        self.fields = dict(fields)
        self.order = list(self.fields)
        self.name = 'Rec{%s}' % ','.join('%s:%s' % (k, v.name) for k, v in self.fields.items())

    def sort(self):
        def build():
            d = z3.Datatype('Rec_' + _mangle(self.name))
            d.declare('mk', *[('r_' + _mangle(k), t.sort()) for k, t in self.fields.items()])
            return d.create()
        return _dt(self.name, build)

    def mk(self, **vs):
        return self.sort().constructor(0)(*[vs[k] for k in self.order])

    def get(self, t, k):
        return self.sort().accessor(0, self.order.index(k))(t)

    def set(self, t, k, v):
        return self.sort().constructor(0)(*[v if f == k else self.get(t, f) for f in self.order])

    def dflt(self):
        return self.sort().constructor(0)(*[self.fields[k].dflt() for k in self.order])

    def wf(self, t):
        out = []
        for k in self.order:
            out += self.fields[k].wf(self.get(t, k))
        return out


class Union(Ty):
    """Tagged union of named alternatives; each alternative has a Python shape
    (a type) and a truthiness.  Declared in specs with `union(name, alt=Type, ...)`."""

    def __init__(self, name, alts):
        self.name = name
        self.alts = dict(alts)      # altname -> Ty
        self.order = list(self.alts)

    def sort(self):
        def build():
            d = z3.Datatype('U_' + _mangle(self.name))
            for k in self.order:
                t = self.alts[k]
                if t in (EMPTYDICT, NONE, EMPTYSEQ):
                    d.declare('u_' + k)
                else:
                    d.declare('u_' + k, ('g_' + k, t.sort()))
            return d.create()
        return _dt('Union:' + self.name, build)

    def inject(self, alt, v=None):
        i = self.order.index(alt)
        c = self.sort().constructor(i)
        return c() if self.alts[alt] in (EMPTYDICT, NONE, EMPTYSEQ) else c(v)

    def is_alt(self, t, alt):
        return self.sort().recognizer(self.order.index(alt))(t)

    def get(self, t, alt):
        return self.sort().accessor(self.order.index(alt), 0)(t)

    def alt_of(self, ty):
        for k, t in self.alts.items():
            if t == ty:
                return k
        return None

    def dflt(self):
        return self.inject(self.order[0], self.alts[self.order[0]].dflt()
                           if self.alts[self.order[0]] not in (EMPTYDICT, NONE, EMPTYSEQ) else None)

    def wf(self, t):
        out = []
        for k, ty in self.alts.items():
            if ty in (EMPTYDICT, NONE, EMPTYSEQ):
                continue
            sub = ty.wf(self.get(t, k))
            if sub:
                out.append(z3.Implies(self.is_alt(t, k), z3.And(*sub)))
        return out


class Ref(Ty):
    def __init__(self, cls):
        self.cls = cls
        self.name = 'Ref[%s]' % cls

    def sort(self):
        return RefSort

    def dflt(self):
        return z3.IntVal(0)

    def wf(self, t):
        return [t > 0]


class Fun(Ty):
    def __init__(self, args, ret):
        self.args, self.ret = list(args), ret
        self.name = 'Fun[%s->%s]' % (','.join(a.name for a in self.args), ret.name)

    def sort(self):
        raise TypeError('function values have no first-class sort')


class SetT(Ty):
    """Ghost set of keys (e.g. the done-set of an order-agnostic map loop)."""

    def __init__(self, key):
        self.key = key
        self.name = 'Set[%s]' % key.name

    def sort(self):
        return z3.ArraySort(self.key.sort(), z3.BoolSort())

    def dflt(self):
        return z3.K(self.key.sort(), z3.BoolVal(False))


PATH = Seq(ATOM)

_named = {'Int': INT, 'Real': REAL, 'Bool': BOOL, 'Atom': ATOM, 'Str': ATOM, 'Val': VAL, 'Tree': TREE,
          'Path': PATH, 'EmptyDict': EMPTYDICT, 'NoneType': NONE}


def declare_type(name, ty):
    _named[name] = ty
    return ty


def parse_type(s):
    """Parse 'Seq[Atom]', 'Map[Path,Ref[Process]]', 'Opt[Int]', 'Tup[Int,Real]', 'Rec{a:Int,b:Real}'."""
    if isinstance(s, Ty):
        return s
    s = s.strip()
    if s in _named:
        return _named[s]
    from . import spec as _S
    if s in _S.TYPEDEFS:
        _named[s] = parse_type(_S.TYPEDEFS[s])
        return _named[s]
    if s in _S.UNIONS:
        _named[s] = Union(s, {k: parse_type(v) for k, v in _S.UNIONS[s].items()})
        return _named[s]
    if s.startswith('Rec{') and s.endswith('}'):
        fields = {}
        for part in _split(s[4:-1]):
            k, v = part.split(':', 1)
            fields[k.strip()] = parse_type(v)
        return Rec(fields)
    if s.endswith(']'):
        head, rest = s.split('[', 1)
        args = _split(rest[:-1])
        if head == 'Seq':
            return Seq(parse_type(args[0]))
        if head == 'Map':
            return Map(parse_type(args[0]), parse_type(args[1]))
        if head == 'Opt':
            return Opt(parse_type(args[0]))
        if head == 'Set':
            return SetT(parse_type(args[0]))
        if head == 'Tup':
            return Tup([parse_type(a) for a in args])
        if head == 'Ref':
            return Ref(args[0].strip())
        if head == 'Fun':
            a, r = rest[:-1].rsplit('->', 1)
            return Fun([parse_type(x) for x in _split(a)] if a.strip() else [], parse_type(r))
    raise ValueError('unknown type %r' % s)


def _split(s):
    out, depth, cur = [], 0, ''
    for ch in s:
        if ch in '[{':
            depth += 1
        elif ch in ']}':
            depth -= 1
        if ch == ',' and depth == 0:
            out.append(cur)
            cur = ''
        else:
            cur += ch
    if cur.strip():
        out.append(cur)
    return [x.strip() for x in out]
