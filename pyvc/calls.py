"""Call evaluation: builtins, container methods, spec primitives, ghost
functions (uninterpreted + fuel unfolding), lemma instances, and calls of
functions under contract (assert pre, havoc frame, assume post)."""
import ast
import z3

from . import ty as T
from . import spec as S
from .symex import (SV, OutOfSubset, ContractDrift, XREAL, fresh, fresh_sv, truthy, coerce, unify, equal,
                    seq_len, seq_get, seq_append, seq_concat, seq_slice, seq_lit, map_has, map_get, map_set,
                    map_del, tree_empty_node, tree_set, tree_del, to_real, _fresh_counter, tree_number, tree_is_number)

IGNORED_CALLS = {'print', 'pp', 'pf', 'print_progress_bar', '_print_summary', 'warn'}
IGNORED_ATTR_BASES = {'log', 'warnings', 'logging'}


def call_name(node):
    f = node.func
    if isinstance(f, ast.Name):
        return f.id
    if isinstance(f, ast.Attribute):
        return f.attr
    return None


def is_ignored_call(node):
    f = node.func
    if isinstance(f, ast.Name) and f.id in IGNORED_CALLS:
        return True
    if isinstance(f, ast.Attribute) and isinstance(f.value, ast.Name) and f.value.id in IGNORED_ATTR_BASES:
        return True
    return False


def _bind_lambda(ex, lam_node, names_types):
    """bound variables for forall/exists: returns (vars, new env additions)"""
    args = [a.arg for a in lam_node.args.args]
    out = []
    for a in args:
        t = names_types.get(a) or ex.types.get(a) or S.BOUND_TYPES.get(a)
        if t is None:
            raise OutOfSubset('bound variable %s needs a type in the contract `types`' % a)
        ty = T.parse_type(t)
        out.append((a, ty, z3.Const('%s!b%d' % (a, next(_fresh_counter)), ty.sort())))
    return out


def eval_quant(ex, node, st, kind):
    lam = node.args[0]
    if not isinstance(lam, ast.Lambda):
        raise OutOfSubset('%s needs a lambda' % kind)
    bound = _bind_lambda(ex, lam, {})
    st2 = st.copy()
    for a, ty, v in bound:
        st2.env[a] = SV(ty, v)
        st2.alias.pop(a, None)
    saved_mode = ex.ctx.mode
    body = truthy(ex.ev(lam.body, st2))
    ex.ctx.mode = saved_mode
    vs = [v for _, _, v in bound]
    # explicit triggers: keyword `pattern=lambda ...: expr`
    pats = []
    for kw in node.keywords:
        if kw.arg == 'pattern':
            p = ex.ev(kw.value.body if isinstance(kw.value, ast.Lambda) else kw.value, st2)
            pats.append(p.t)
    if kind == 'forall':
        return SV(T.BOOL, z3.ForAll(vs, body, patterns=pats) if pats else z3.ForAll(vs, body))
    return SV(T.BOOL, z3.Exists(vs, body, patterns=pats) if pats else z3.Exists(vs, body))


def eval_old(ex, node, st):
    if st.old is None:
        raise OutOfSubset('old() outside a postcondition')
    o = st.old.copy()
    # bound variables of enclosing quantifiers stay visible
    for k, v in st.env.items():
        if k not in o.env:
            o.env[k] = v
    o.old = None
    return ex.ev(node.args[0], o)


def ghost_app(ex, gname, args, st):
    g = S.GHOSTS[gname]
    ptypes = [T.parse_type(g.types[p]) for p in g.params]
    rty = T.parse_type(g.ret)
    if len(args) != len(ptypes):
        raise OutOfSubset('ghost %s arity' % gname)
    cargs = []
    for a, pt in zip(args, ptypes):
        c = coerce(a, pt)
        if c is None:
            raise OutOfSubset('ghost %s argument %s vs %s' % (gname, a.ty, pt))
        cargs.append(c)
    if gname not in ex.ctx.ghost_funcs:
        ex.ctx.ghost_funcs[gname] = z3.Function('g!' + gname, *([p.sort() for p in ptypes] + [rty.sort()]))
    f = ex.ctx.ghost_funcs[gname]
    app = f(*[c.t for c in cargs])
    key = (gname, app.sexpr())
    if key not in ex.ctx.ghost_apps:
        ex.ctx.ghost_apps[key] = (g, cargs, app)
    return SV(rty, app)


def lemma_instance(ex, lname, args, st):
    """Implies(pre, post) of a (separately verified) lemma, instantiated at args."""
    lm = S.LEMMAS[lname]
    ptypes = [T.parse_type(lm.types[p]) for p in lm.params]
    from .symex import State
    st2 = State()
    st2.heap = dict(st.heap)
    for p, pt, a in zip(lm.params, ptypes, args):
        c = coerce(a, pt)
        if c is None:
            raise OutOfSubset('lemma %s argument %s vs %s' % (lname, a.ty, pt))
        st2.env[p] = c
    saved = ex.ctx.mode
    saved_types = ex.types
    ex.types = dict(ex.types)
    ex.types.update(lm.types)
    ex.types.update(lm.local_types)
    ex.ctx.mode = 'spec-assume'
    try:
        pre = [truthy(ex.ev(r, st2)) for r in lm.requires]
        post = [truthy(ex.ev(e, st2)) for e in lm.ensures]
    finally:
        ex.ctx.mode = saved
        ex.types = saved_types
    ex.ctx.assumptions_used.add('lemma:' + lname)
    return z3.Implies(z3.And(*pre) if pre else z3.BoolVal(True), z3.And(*post) if post else z3.BoolVal(True))


def round_fn(ex):
    if 'round' not in ex.ctx.extern_funcs:
        ex.ctx.extern_funcs['round'] = z3.Function('py!round', z3.RealSort(), z3.IntSort(), z3.RealSort())
    return ex.ctx.extern_funcs['round']


def eval_call(ex, node, st, want):
    f = node.func
    name = call_name(node)
    ctx = ex.ctx
    if is_ignored_call(node):
        return SV(T.NONE, z3.BoolVal(True))

    # ---------------- spec-only primitives ---------------------------------
    if isinstance(f, ast.Name):
        if name in ('forall', 'exists'):
            return eval_quant(ex, node, st, name)
        if name in ('forall_range', 'exists_range'):
            lo = ex.ev(node.args[0], st, T.INT)
            hi = ex.ev(node.args[1], st, T.INT)
            lam = node.args[2]
            j = z3.Int('%s!r%d' % (lam.args.args[0].arg, next(_fresh_counter)))
            st2 = st.copy()
            st2.env[lam.args.args[0].arg] = SV(T.INT, j)
            st2.alias.pop(lam.args.args[0].arg, None)
            rng = z3.And(lo.t <= j, j < hi.t)
            saved = list(ex.guards)
            ex.guards.append(rng)
            try:
                body = truthy(ex.ev(lam.body, st2))
            finally:
                ex.guards = saved
            if name == 'forall_range':
                return SV(T.BOOL, z3.ForAll([j], z3.Implies(rng, body)))
            return SV(T.BOOL, z3.Exists([j], z3.And(rng, body)))
        if name == 'forall_keys':
            m = ex.ev(node.args[0], st)
            lam = node.args[1]
            kty = T.ATOM if m.ty == T.TREE else m.ty.key
            k = z3.Const('%s!k%d' % (lam.args.args[0].arg, next(_fresh_counter)), kty.sort())
            st2 = st.copy()
            st2.env[lam.args.args[0].arg] = SV(kty, k)
            st2.alias.pop(lam.args.args[0].arg, None)
            hk = z3.And(T.is_TNode(m.t), T.thas(m.t)[k]) if m.ty == T.TREE else map_has(m, k)
            saved = list(ex.guards)
            ex.guards.append(hk)
            try:
                body = truthy(ex.ev(lam.body, st2))
            finally:
                ex.guards = saved
            return SV(T.BOOL, z3.ForAll([k], z3.Implies(hk, body)))
        if name == 'implies':
            a = truthy(ex.ev(node.args[0], st))
            saved = list(ex.guards)
            ex.guards.append(a)
            try:
                b = truthy(ex.ev(node.args[1], st))
            finally:
                ex.guards = saved
            return SV(T.BOOL, z3.Implies(a, b))
        if name == 'iff':
            return SV(T.BOOL, truthy(ex.ev(node.args[0], st)) == truthy(ex.ev(node.args[1], st)))
        if name == 'old':
            return eval_old(ex, node, st)
        if name == 'is_node':
            t = ex.ev(node.args[0], st, T.TREE)
            return SV(T.BOOL, T.is_TNode(t.t))
        if name == 'is_leaf':
            t = ex.ev(node.args[0], st, T.TREE)
            return SV(T.BOOL, T.is_TLeaf(t.t))
        if name == 'is_list':
            t = ex.ev(node.args[0], st, T.TREE)
            return SV(T.BOOL, T.is_TList(t.t))
        if name == 'has':
            t = ex.ev(node.args[0], st)
            k = ex.ev(node.args[1], st)
            if t.ty == T.TREE:
                return SV(T.BOOL, z3.And(T.is_TNode(t.t), T.thas(t.t)[coerce(k, T.ATOM).t]))
            if isinstance(t.ty, T.Map):
                return SV(T.BOOL, map_has(t, coerce(k, t.ty.key).t))
            raise OutOfSubset('has() on %s' % t.ty)
        if name == 'child':
            t = ex.ev(node.args[0], st, T.TREE)
            k = ex.ev(node.args[1], st, T.ATOM)
            return SV(T.TREE, T.tkids(t.t)[k.t])
        if name == 'is_number':
            t = ex.ev(node.args[0], st, T.TREE)
            return SV(T.BOOL, tree_is_number(t.t))
        if name == 'number_of':
            t = ex.ev(node.args[0], st, T.TREE)
            return SV(T.REAL, tree_number(t.t))
        if name == 'tree_put':
            t = ex.ev(node.args[0], st, T.TREE)
            k = ex.ev(node.args[1], st, T.ATOM)
            v = ex.ev(node.args[2], st, T.TREE)
            return SV(T.TREE, tree_set(t.t, k.t, v.t))
        if name == 'tree_remove':
            t = ex.ev(node.args[0], st, T.TREE)
            k = ex.ev(node.args[1], st, T.ATOM)
            return SV(T.TREE, tree_del(t.t, k.t))
        if name == 'tree_rank':
            t = ex.ev(node.args[0], st, T.TREE)
            rank = z3.Function('tree_rank', T.TreeSort, z3.IntSort())
            if not getattr(ctx, 'rank_axiom', False):
                ctx.rank_axiom = True
                ctx.assumptions_used.add('nested dicts are finite trees: tree_rank(child) < tree_rank(parent) (well-foundedness axiom)')
            tt = z3.Const('t!rk', T.TreeSort)
            kk = z3.Const('k!rk', T.AtomSort)
            ax = z3.ForAll([tt, kk], z3.Implies(z3.And(T.is_TNode(tt), T.thas(tt)[kk]),
                                                z3.And(rank(T.tkids(tt)[kk]) < rank(tt), rank(T.tkids(tt)[kk]) >= 0)),
                           patterns=[rank(T.tkids(tt)[kk])])
            if not any(a.eq(ax) for a in st.pc[-50:]):
                st.pc.append(ax)
            st.pc.append(rank(t.t) >= 0)
            return SV(T.INT, rank(t.t))
        if name == 'leaf_none':
            return SV(T.TREE, T.TLeaf(T.VNone()))
        if name == 'list_len':
            t = ex.ev(node.args[0], st, T.TREE)
            return SV(T.INT, T.llen(t.t))
        if name == 'list_item':
            t = ex.ev(node.args[0], st, T.TREE)
            i = ex.ev(node.args[1], st, T.INT)
            return SV(T.TREE, T.larr(t.t)[i.t])
        if name == 'list2':
            a = ex.ev(node.args[0], st, T.TREE)
            b = ex.ev(node.args[1], st, T.TREE)
            return coerce(seq_lit(T.TREE, [a.t, b.t]), T.TREE)
        if name == 'list_append':
            t = ex.ev(node.args[0], st, T.TREE)
            b = ex.ev(node.args[1], st, T.TREE)
            return SV(T.TREE, T.TList(T.llen(t.t) + 1, z3.Store(T.larr(t.t), T.llen(t.t), b.t)))
        if name == 'map_put':
            m = ex.ev(node.args[0], st)
            k = ex.ev(node.args[1], st, m.ty.key)
            v = ex.ev(node.args[2], st, m.ty.val)
            return map_set(m, k.t, v.t)
        if name == 'map_remove':
            m = ex.ev(node.args[0], st)
            k = ex.ev(node.args[1], st, m.ty.key)
            return map_del(m, k.t)
        if name == 'lookup':
            m = ex.ev(node.args[0], st)
            k = ex.ev(node.args[1], st, m.ty.key)
            return map_get(m, k.t)
        if name == 'is_inf':
            x = ex.ev(node.args[0], st, XREAL)
            return SV(T.BOOL, XREAL.is_inf(x.t))
        if name == 'finite':
            x = ex.ev(node.args[0], st, XREAL)
            return SV(T.REAL, XREAL.val(x.t))
        if name == 'is_none':
            x = ex.ev(node.args[0], st)
            from .symex import Exec
            return SV(T.BOOL, ex._compare(ast.Is(), x, SV(T.NONE, z3.BoolVal(True)), st))
        if name == 'is_alt':
            x = ex.ev(node.args[0], st)
            alt = node.args[1].value
            return SV(T.BOOL, x.ty.is_alt(x.t, alt))
        if name == 'alt':
            x = ex.ev(node.args[0], st)
            alt = node.args[1].value
            return SV(x.ty.alts[alt], x.ty.get(x.t, alt))
        if name == 'some':
            x = ex.ev(node.args[0], st)
            if isinstance(x.ty, T.Opt):
                return SV(x.ty.inner, x.ty.get(x.t))
            return x
        if name == 'entry':
            # value of an expression at the entry of the innermost enclosing loop
            ent = st.ghost.get('_entry')
            if ent is None:
                raise OutOfSubset('entry() outside a loop invariant')
            e2 = ent.copy()
            for k, v in st.env.items():
                if k not in e2.env:
                    e2.env[k] = v          # bound variables of enclosing quantifiers
            return ex.ev(node.args[0], e2)
        if name == 'fresh':
            x = ex.ev(node.args[0], st)
            if st.old is None:
                raise OutOfSubset('fresh() outside a postcondition')
            old_cnt = st.old.heap.get(('$alloc', 'next'))
            new_cnt = st.heap.get(('$alloc', 'next'))
            if old_cnt is None or new_cnt is None:
                raise OutOfSubset('fresh() without allocation counter')
            return SV(T.BOOL, z3.And(x.t >= old_cnt, x.t < new_cnt))
        if name == 'is_identity':
            fv = ex.ev(node.args[0], st)
            if fv.extra and fv.extra[0] == 'lambda':
                lam = fv.extra[1]
                ok = len(lam.args.args) == 1 and isinstance(lam.body, ast.Name) and lam.body.id == lam.args.args[0].arg
                return SV(T.BOOL, z3.BoolVal(bool(ok)))
            if isinstance(fv.ty, T.Fun) and fv.t is not None and len(fv.ty.args) == 1:
                x = z3.Const('x!id%d' % next(_fresh_counter), fv.ty.args[0].sort())
                return SV(T.BOOL, z3.ForAll([x], fv.t(x) == x))
            raise OutOfSubset('is_identity of %s' % fv.ty)
        if name == 'allocates':
            # exactly n objects were allocated since the old state
            n = ex.ev(node.args[0], st, T.INT)
            if st.old is None:
                raise OutOfSubset('allocates() outside a postcondition')
            return SV(T.BOOL, st.heap[('$alloc', 'next')] == st.old.heap[('$alloc', 'next')] + n.t)
        if name == 'allocated':
            x = ex.ev(node.args[0], st)
            cnt = st.heap.get(('$alloc', 'next'))
            if cnt is None:
                raise OutOfSubset('allocated() without allocation counter')
            return SV(T.BOOL, z3.And(x.t > 0, x.t < cnt))
        if name == 'old_objects_unchanged':
            # every object of the class that existed in the old state keeps the listed (or all) fields
            cls = node.args[0].value
            fields = [a.value for a in node.args[1:]] or list(S.CLASSES[cls].all_fields())
            if st.old is None:
                raise OutOfSubset('old_objects_unchanged() outside a postcondition')
            old_cnt = st.old.heap.get(('$alloc', 'next'))
            if old_cnt is None:
                raise OutOfSubset('old_objects_unchanged() without allocation counter')
            r = z3.Int('r!oo%d' % next(_fresh_counter))
            conj = []
            for f_ in fields:
                key, fty = ex.heap_arr(st, cls, f_)
                now = st.heap[key]
                if key not in st.old.heap:
                    continue
                was = st.old.heap[key]
                if now.eq(was):
                    continue
                conj.append(z3.ForAll([r], z3.Implies(z3.And(r > 0, r < old_cnt), now[r] == was[r]), patterns=[now[r]]))
            return SV(T.BOOL, z3.And(*conj) if conj else z3.BoolVal(True))
        if name == 'unchanged_except':
            # unchanged_except('Class', x [, 'field', ...]): all (or the listed) fields of every other object of Class are as in old()
            cls = node.args[0].value
            x = ex.ev(node.args[1], st) if len(node.args) > 1 and not (isinstance(node.args[1], ast.Constant) and node.args[1].value is None) else None
            fields = [a.value for a in node.args[2:]] or list(S.CLASSES[cls].all_fields())
            if st.old is None:
                raise OutOfSubset('unchanged_except() outside a postcondition')
            r = z3.Int('r!ue%d' % next(_fresh_counter))
            conj = []
            for f_ in fields:
                key, fty = ex.heap_arr(st, cls, f_)
                now = st.heap[key]
                if key not in st.old.heap:
                    # never touched between the old state and now: unchanged by construction
                    continue
                was = st.old.heap[key]
                if now is was or now.eq(was):
                    continue
                body = now[r] == was[r]
                if x is not None:
                    body = z3.Implies(r != x.t, body)
                conj.append(z3.ForAll([r], body, patterns=[now[r]]))
            return SV(T.BOOL, z3.And(*conj) if conj else z3.BoolVal(True))
        if name == 'hint' and ctx.mode != 'code':
            return SV(T.BOOL, z3.BoolVal(True))
        if name in S.GHOSTS:
            args = [ex.ev(a, st) for a in node.args]
            return ghost_app(ex, name, args, st)
        if name in S.LEMMAS and ctx.mode in ('spec', 'spec-assume'):
            args = [ex.ev(a, st) for a in node.args]
            return SV(T.BOOL, lemma_instance(ex, name, args, st))

    # ---------------- Python builtins ---------------------------------------
    if isinstance(f, ast.Name):
        if name == 'len':
            x = ex.ev(node.args[0], st)
            if isinstance(x.ty, T.Opt):
                ex.safety(st, z3.Not(x.ty.is_none(x.t)), 'len-of-None')
                x = SV(x.ty.inner, x.ty.get(x.t))
            if isinstance(x.ty, T.Seq):
                return SV(T.INT, seq_len(x))
            if x.ty in (T.EMPTYSEQ, T.EMPTYDICT):
                return SV(T.INT, z3.IntVal(0))
            if x.ty == T.TREE:
                ex.safety(st, z3.Or(T.is_TList(x.t), T.is_TNode(x.t)), 'len-of-non-container')
                card = z3.Function('tree_card', T.TreeSort, z3.IntSort())
                k = z3.Const('k!card', T.AtomSort)
                st.pc.append(card(x.t) >= 0)
                st.pc.append(z3.Implies(T.is_TNode(x.t),
                                        (card(x.t) == 0) == z3.Not(z3.Exists([k], T.thas(x.t)[k]))))
                return SV(T.INT, z3.If(T.is_TList(x.t), T.llen(x.t), card(x.t)))
            if isinstance(x.ty, T.Map):
                card = z3.Function('card!' + x.ty.name, x.ty.sort(), z3.IntSort())
                k = z3.Const('k!card', x.ty.key.sort())
                st.pc.append(card(x.t) >= 0)
                st.pc.append((card(x.t) == 0) == z3.Not(z3.Exists([k], x.ty.has(x.t)[k])))
                return SV(T.INT, card(x.t))
            if isinstance(x.ty, T.Tup):
                return SV(T.INT, z3.IntVal(len(x.ty.items)))
            if isinstance(x.ty, T.Union):
                # len of a union: defined per alternative
                terms = None
                for k, a in reversed(list(x.ty.alts.items())):
                    if a in (T.EMPTYDICT, T.EMPTYSEQ):
                        v = z3.IntVal(0)
                    elif isinstance(a, T.Tup):
                        v = z3.IntVal(len(a.items))
                    elif isinstance(a, T.Seq):
                        v = a.len(x.ty.get(x.t, k))
                    else:
                        raise OutOfSubset('len of union alt %s' % a)
                    terms = v if terms is None else z3.If(x.ty.is_alt(x.t, k), v, terms)
                return SV(T.INT, terms)
            raise OutOfSubset('len of %s' % x.ty)
        if name in ('min', 'max') and len(node.args) == 2:
            a = ex.ev(node.args[0], st)
            b = ex.ev(node.args[1], st)
            lt = ex._compare(ast.Lt(), b, a, st) if name == 'min' else ex._compare(ast.Gt(), b, a, st)
            u = unify(a.ty, b.ty)
            if u is None:
                raise OutOfSubset('%s of %s, %s' % (name, a.ty, b.ty))
            return SV(u, z3.If(lt, coerce(b, u).t, coerce(a, u).t))
        if name == 'abs':
            a = ex.ev(node.args[0], st)
            return SV(a.ty, z3.If(a.t >= 0, a.t, -a.t))
        if name == 'bool':
            return SV(T.BOOL, truthy(ex.ev(node.args[0], st)))
        if name == 'isinstance':
            return eval_isinstance(ex, node, st)
        if name == 'callable':
            x = ex.ev(node.args[0], st)
            return SV(T.BOOL, z3.BoolVal(isinstance(x.ty, T.Fun)))
        if name == 'int':
            a = ex.ev(node.args[0], st)
            if a.ty == T.INT:
                return a
            if a.ty == T.REAL:
                # truncation towards zero
                fl = z3.ToInt(a.t)
                return SV(T.INT, z3.If(a.t >= 0, fl, z3.If(z3.ToReal(fl) == a.t, fl, fl + 1)))
            raise OutOfSubset('int() of %s' % a.ty)
        if name == 'float':
            if isinstance(node.args[0], ast.Constant) and node.args[0].value in ('inf', 'Infinity'):
                return SV(XREAL, XREAL.inf)
            a = ex.ev(node.args[0], st)
            return SV(T.REAL, to_real(a))
        if name == 'round':
            a = ex.ev(node.args[0], st)
            p = ex.ev(node.args[1], st) if len(node.args) > 1 else SV(T.INT, z3.IntVal(0))
            if isinstance(p.ty, T.Opt):
                ex.safety(st, z3.Not(p.ty.is_none(p.t)), 'round-precision-None')
                p = SV(p.ty.inner, p.ty.get(p.t))
            ctx.assumptions_used.add('external:round(x,p) is uninterpreted; only idempotence is assumed')
            r = round_fn(ex)
            if a.ty is XREAL:
                ex.safety(st, z3.Not(XREAL.is_inf(a.t)), 'round-of-infinity')      # round(math.inf, p) raises OverflowError
                a = SV(T.REAL, XREAL.val(a.t))
            x = to_real(a)
            res = r(x, p.t)
            st.pc.append(r(res, p.t) == res)
            return SV(T.REAL, res)
        if name in ('tuple', 'list'):
            if not node.args:
                return SV(T.EMPTYSEQ, z3.BoolVal(True))
            a = ex.ev(node.args[0], st, want if isinstance(want, T.Seq) else None)
            if isinstance(a.ty, T.Seq) or a.ty == T.EMPTYSEQ:
                return a
            if a.extra and a.extra[0] == 'mapview' and a.extra[1] == 'items' and isinstance(a.extra[2].ty, T.Map):
                return items_enumeration(ex, a.extra[2], st)
            raise OutOfSubset('%s() of %s' % (name, a.ty))
        if name == 'dict':
            if not node.args:
                return SV(T.EMPTYDICT, z3.BoolVal(True))
            a = ex.ev(node.args[0], st, want)
            if isinstance(a.ty, (T.Map, T.Rec)) or a.ty in (T.TREE, T.EMPTYDICT):
                if a.ty == T.TREE:
                    ex.safety(st, T.is_TNode(a.t), 'dict()-of-non-dict')
                if node.keywords:
                    # dict(d, **{key: value}): a NEW dict, d with one entry replaced / added
                    kws = node.keywords
                    if a.ty == T.TREE and len(kws) == 1 and kws[0].arg is None and isinstance(kws[0].value, ast.Dict) \
                            and len(kws[0].value.keys) == 1 and kws[0].value.keys[0] is not None:
                        k = ex.ev(kws[0].value.keys[0], st, T.ATOM)
                        v = coerce(ex.ev(kws[0].value.values[0], st, T.TREE), T.TREE)
                        if k.ty != T.ATOM or v is None:
                            raise OutOfSubset('dict(x, **{k: v}) with key %s' % k.ty)
                        return SV(T.TREE, tree_set(a.t, k.t, v.t))
                    raise OutOfSubset('dict(x, **kw)')
                return a
            if isinstance(a.ty, T.Seq) and isinstance(a.ty.elem, T.Tup) and len(a.ty.elem.items) == 2 and not node.keywords:
                # dict(list of (key, value) pairs): the keys are exactly the first components, the LAST pair of a key wins
                kt, vt = a.ty.elem.items
                mty = T.Map(kt, vt)
                m = fresh_sv('dict_of_pairs', mty)
                st.pc.extend(mty.wf(m.t))
                n = seq_len(a)
                k = z3.Const('k!dp%d' % next(_fresh_counter), kt.sort())
                i = z3.Int('i!dp%d' % next(_fresh_counter))
                j = z3.Int('j!dp%d' % next(_fresh_counter))
                if a.extra and a.extra[0] == 'slice':
                    # dict(base[lo:lo+ln]): the same meaning (keys = first components, the LAST pair of a key wins), stated
                    # over the indices of the base sequence and without nested quantifiers: last(k) is the greatest index
                    # of the window that carries key k
                    _, b, lo_, ln_ = a.extra
                    barr = b.ty.arr(b.t)
                    bkey = lambda ix: a.ty.elem.get(barr[ix], 0)
                    bval = lambda ix: a.ty.elem.get(barr[ix], 1)
                    last = z3.Function('lastidx!%d' % next(_fresh_counter), kt.sort(), z3.IntSort())
                    st.pc.append(z3.ForAll([k], z3.Implies(map_has(m, k), z3.And(
                        lo_ <= last(k), last(k) < lo_ + ln_, bkey(last(k)) == k, map_get(m, k).t == bval(last(k)))),
                        patterns=[mty.has(m.t)[k], last(k)]))
                    st.pc.append(z3.ForAll([k, j], z3.Implies(z3.And(map_has(m, k), last(k) < j, j < lo_ + ln_), bkey(j) != k),
                                           patterns=[z3.MultiPattern(last(k), barr[j])]))
                    st.pc.append(z3.ForAll([i], z3.Implies(z3.And(lo_ <= i, i < lo_ + ln_), map_has(m, bkey(i))),
                                           patterns=[barr[i]]))
                    return m
                key_at = lambda ix: a.ty.elem.get(seq_get(a, ix).t, 0)
                val_at = lambda ix: a.ty.elem.get(seq_get(a, ix).t, 1)
                st.pc.append(z3.ForAll([k], map_has(m, k) == z3.Exists([i], z3.And(0 <= i, i < n, key_at(i) == k))))
                st.pc.append(z3.ForAll([i], z3.Implies(
                    z3.And(0 <= i, i < n, z3.ForAll([j], z3.Implies(z3.And(i < j, j < n), key_at(j) != key_at(i)))),
                    map_get(m, key_at(i)).t == val_at(i)), patterns=[key_at(i)]))
                return m
            raise OutOfSubset('dict() of %s' % a.ty)
        if name in ('all', 'any') and len(node.args) == 1 and isinstance(node.args[0], ast.GeneratorExp):
            return eval_all_any(ex, node, st, name)
        if name == 'cast':
            return ex.ev(node.args[1], st, want)
        if name == 'str':
            return SV(T.ATOM, fresh('str', T.ATOM))
        if name == 'sorted':
            return eval_sorted(ex, node, st)

    # ---------------- container methods ----------------------------------
    if isinstance(f, ast.Attribute):
        meth = f.attr
        # module-qualified calls
        if isinstance(f.value, ast.Name) and f.value.id == 'copy' and meth in ('copy', 'deepcopy'):
            ctx.assumptions_used.add('value semantics: copy.%s(x) == x for by-value containers' % meth)
            return ex.ev(node.args[0], st, want)
        if isinstance(f.value, ast.Name) and f.value.id == 'random' and meth == 'choice':
            a = ex.ev(node.args[0], st)
            i = fresh('choice', T.INT)
            st.pc.append(z3.And(0 <= i, i < seq_len(a)))
            ex.safety(st, seq_len(a) > 0, 'choice-from-empty')
            ctx.assumptions_used.add('external:random.choice returns one of the elements of its argument')
            return seq_get(a, i)
        if isinstance(f.value, ast.Attribute) and isinstance(f.value.value, ast.Name) and \
                f.value.value.id == 'np' and f.value.attr == 'random' and meth == 'binomial':
            n = ex.ev(node.args[0], st)
            r = fresh_sv('binomial', n.ty)
            ctx.assumptions_used.add('external:np.random.binomial returns an arbitrary value of the type of n')
            return r
        base_node = f.value
        # is it a value (container) method?
        try_value = True
        if isinstance(base_node, ast.Name) and base_node.id not in st.env and base_node.id not in st.alias \
                and base_node.id not in st.ghost:
            try_value = False
        if try_value:
            base = ex.ev(base_node, st)
            r = eval_method(ex, node, base, meth, st, want)
            if r is not None:
                return r
            if isinstance(base.ty, T.Opt) and isinstance(base.ty.inner, T.Ref):
                ex.safety(st, z3.Not(base.ty.is_none(base.t)), 'method-on-None')
                base = SV(base.ty.inner, base.ty.get(base.t))
            if isinstance(base.ty, T.Ref):
                return call_contract(ex, node, st, want, method_of=base)
            raise OutOfSubset('method %s on %s (line %s)' % (meth, base.ty, node.lineno))
        # Class.staticmethod(...) or module.func(...)
        return call_contract(ex, node, st, want)

    if isinstance(f, ast.Name):
        # lambda / function parameter
        if name in st.env and isinstance(st.env[name].ty, T.Fun):
            return call_funval(ex, st.env[name], node, st, want)
        return call_contract(ex, node, st, want)
    raise OutOfSubset('call form at line %s' % node.lineno)


def call_funval(ex, fv, node, st, want):
    if fv.extra and fv.extra[0] == 'lambda':
        _, lam, lst = fv.extra
        st2 = st.copy()
        for a, an in zip(lam.args.args, node.args):
            st2.env[a.arg] = ex.ev(an, st)
        return ex.ev(lam.body, st2, want)
    # uninterpreted pure function parameter
    fty = fv.ty
    args = [ex.ev(a, st, t) for a, t in zip(node.args, fty.args)]
    return SV(fty.ret, fv.t(*[a.t for a in args]))


def eval_isinstance(ex, node, st):
    x = ex.ev(node.args[0], st)
    cls = node.args[1]
    names = []

    def collect(c):
        if isinstance(c, ast.Tuple):
            for e in c.elts:
                collect(e)
        elif isinstance(c, ast.Name):
            names.append(c.id)
        elif isinstance(c, ast.Attribute):
            names.append(c.attr)
        else:
            raise OutOfSubset('isinstance class expression')
    collect(cls)
    res = []
    for n in names:
        res.append(_isinstance1(ex, x, n, st))
    return SV(T.BOOL, z3.Or(*res) if len(res) > 1 else res[0])


def _isinstance1(ex, x, n, st):
    ty = x.ty
    if isinstance(ty, T.Opt):
        return z3.And(z3.Not(ty.is_none(x.t)), _isinstance1(ex, SV(ty.inner, ty.get(x.t)), n, st))
    if isinstance(ty, T.Union):
        return z3.Or(*[z3.And(ty.is_alt(x.t, k), z3.BoolVal(False) if a in (T.NONE,) else
                             _isinstance1(ex, SV(a, ty.get(x.t, k)) if a not in (T.EMPTYDICT, T.EMPTYSEQ)
                                          else SV(a, z3.BoolVal(True)), n, st))
                       for k, a in ty.alts.items()])
    if n in ('dict', 'Mapping'):
        if ty == T.TREE:
            return T.is_TNode(x.t)
        return z3.BoolVal(isinstance(ty, (T.Map, T.Rec)) or ty == T.EMPTYDICT)
    if n == 'list':
        if ty == T.TREE:
            return T.is_TList(x.t)
        return z3.BoolVal(False) if not isinstance(ty, T.Seq) else z3.BoolVal(bool(getattr(ty, 'is_list', True)))
    if n == 'tuple':
        if ty == T.TREE:
            return z3.BoolVal(False)
        return z3.BoolVal(isinstance(ty, (T.Seq, T.Tup)))
    if n in ('int', 'integer'):
        if ty == T.TREE:
            return z3.And(T.is_TLeaf(x.t), T.is_VInt(T.lval(x.t)))
        if ty == T.VAL:
            return T.is_VInt(x.t)
        return z3.BoolVal(ty == T.INT or (n == 'int' and ty == T.BOOL))
    if n in ('float', 'floating'):
        if ty == T.VAL:
            return T.is_VReal(x.t)
        return z3.BoolVal(ty == T.REAL or ty is XREAL)
    if n == 'str':
        if ty == T.TREE:
            return z3.And(T.is_TLeaf(x.t), T.is_VStr(T.lval(x.t)))
        return z3.BoolVal(ty == T.ATOM)
    if n in ('ndarray', 'Quantity'):
        if ty in (T.INT, T.REAL, T.BOOL, T.ATOM) or ty is XREAL:
            return z3.BoolVal(False)
        if ty == T.VAL:
            f = z3.Function('val_is_' + n, T.ValSort, z3.BoolSort())
            return z3.And(T.is_VOther(x.t), f(x.t))
        raise OutOfSubset('isinstance(%s, %s)' % (ty, n))
    if n in S.CLASSES or n in ('Process', 'Step', 'Store', 'ParallelProcess'):
        if isinstance(ty, T.Ref):
            return dyn_isinstance(ex, x, n)
        if ty == T.TREE:
            # leaves holding object references
            return z3.And(T.is_TLeaf(x.t), T.is_VRef(T.lval(x.t)),
                          dyn_isinstance(ex, SV(T.Ref(n), T.vref(T.lval(x.t))), n))
        return z3.BoolVal(False)
    raise OutOfSubset('isinstance(_, %s) on %s' % (n, ty))


def dyn_isinstance(ex, x, cls):
    """Dynamic class test on a reference: static subclass info if decidable, else uninterpreted."""
    st_cls = x.ty.cls

    def is_sub(a, b):
        if a == b:
            return True
        cm = S.CLASSES.get(a)
        return bool(cm) and any(is_sub(p, b) for p in cm.bases)
    if is_sub(st_cls, cls):
        return z3.BoolVal(True)
    f = z3.Function('dyn_is_' + cls, T.RefSort, z3.BoolSort())
    return f(x.t)


def eval_all_any(ex, node, st, which):
    gen = node.args[0]
    if len(gen.generators) != 1 or gen.generators[0].ifs:
        raise OutOfSubset('generator with filters/multiple fors')
    g = gen.generators[0]
    it = g.iter
    st2 = st.copy()
    j = z3.Int('j!gen%d' % next(_fresh_counter))
    if isinstance(it, ast.Call) and isinstance(it.func, ast.Name) and it.func.id == 'enumerate':
        seq = ex.ev(it.args[0], st)
        if not isinstance(seq.ty, T.Seq):
            raise OutOfSubset('enumerate over %s' % seq.ty)
        if not (isinstance(g.target, ast.Tuple) and len(g.target.elts) == 2):
            raise OutOfSubset('enumerate target')
        st2.env[g.target.elts[0].id] = SV(T.INT, j)
        st2.env[g.target.elts[1].id] = seq_get(seq, j)
        rng = z3.And(0 <= j, j < seq_len(seq))
    else:
        seq = ex.ev(it, st)
        if not isinstance(seq.ty, T.Seq):
            raise OutOfSubset('generator over %s' % seq.ty)
        if not isinstance(g.target, ast.Name):
            raise OutOfSubset('generator target')
        st2.env[g.target.id] = seq_get(seq, j)
        rng = z3.And(0 <= j, j < seq_len(seq))
    saved = list(ex.guards)
    ex.guards.append(rng)
    try:
        body = truthy(ex.ev(gen.elt, st2))
    finally:
        ex.guards = saved
    # NOTE: safety obligations inside the element mention the free variable j: universally closed at discharge
    if which == 'all':
        return SV(T.BOOL, z3.ForAll([j], z3.Implies(rng, body)))
    return SV(T.BOOL, z3.Exists([j], z3.And(rng, body)))


def items_enumeration(ex, m, st):
    """list(d.items()) for a by-value dict d: Python semantics assumed (listed): the items view enumerates every key of
    the dict exactly once, with the value stored under it, in an order that is a function of the dict value alone (two
    enumerations of an unmodified dict agree), and there are len(d) of them."""
    mty = m.ty
    sty = T.Seq(T.Tup([mty.key, mty.val]))
    enum = z3.Function('items!' + mty.name, mty.sort(), sty.sort())
    pos = z3.Function('itempos!' + mty.name, mty.sort(), mty.key.sort(), z3.IntSort())
    card = z3.Function('card!' + mty.name, mty.sort(), z3.IntSort())
    res = SV(sty, enum(m.t))
    n = seq_len(res)
    st.pc.extend(sty.wf(res.t))
    st.pc.append(n == card(m.t))
    i = z3.Int('i!en%d' % next(_fresh_counter))
    k = z3.Const('k!en%d' % next(_fresh_counter), mty.key.sort())
    elem = sty.arr(res.t)[i]
    key_i, val_i = sty.elem.get(elem, 0), sty.elem.get(elem, 1)
    st.pc.append(z3.ForAll([i], z3.Implies(z3.And(0 <= i, i < n),
                                           z3.And(mty.has(m.t)[key_i], mty.vals(m.t)[key_i] == val_i,
                                                  pos(m.t, key_i) == i)), patterns=[elem]))
    kelem = sty.arr(res.t)[pos(m.t, k)]
    st.pc.append(z3.ForAll([k], z3.Implies(mty.has(m.t)[k],
                                           z3.And(0 <= pos(m.t, k), pos(m.t, k) < n, sty.elem.get(kelem, 0) == k)),
                           patterns=[pos(m.t, k), mty.has(m.t)[k]]))
    ex.ctx.assumptions_used.add('python:list(d.items()) enumerates every key of d exactly once with its value, len(d) pairs, '
                                'in an order determined by the dict value')
    return res


def eval_sorted(ex, node, st):
    """sorted(seq, key=lambda e: e[0]) -- trusted external: returns an ordered permutation."""
    seq = ex.ev(node.args[0], st)
    if not isinstance(seq.ty, T.Seq):
        raise OutOfSubset('sorted of %s' % seq.ty)
    keyf = None
    for kw in node.keywords:
        if kw.arg == 'key':
            keyf = kw.value
    res = fresh_sv('sorted', seq.ty)
    st.pc.extend(seq.ty.wf(res.t))
    st.pc.append(seq_len(res) == seq_len(seq))
    i, j = z3.Int('i!so%d' % next(_fresh_counter)), z3.Int('j!so%d' % next(_fresh_counter))

    def key_of(elem_sv):
        if keyf is None:
            return elem_sv
        st2 = st.copy()
        st2.env[keyf.args.args[0].arg] = elem_sv
        return ex.ev(keyf.body, st2)
    ki, kj = key_of(seq_get(res, i)), key_of(seq_get(res, j))
    le = ex._compare(ast.LtE(), ki, kj, st)
    st.pc.append(z3.ForAll([i, j], z3.Implies(z3.And(0 <= i, i <= j, j < seq_len(res)), le),
                           patterns=[z3.MultiPattern(seq.ty.arr(res.t)[i], seq.ty.arr(res.t)[j])]))
    # permutation: a bijection sigma on indices
    sig = z3.Function('sigma!%d' % next(_fresh_counter), z3.IntSort(), z3.IntSort())
    inv = z3.Function('sigmainv!%d' % next(_fresh_counter), z3.IntSort(), z3.IntSort())
    n = seq_len(seq)
    st.pc.append(z3.ForAll([i], z3.Implies(z3.And(0 <= i, i < n),
                                           z3.And(0 <= sig(i), sig(i) < n, inv(sig(i)) == i,
                                                  seq.ty.arr(res.t)[i] == seq.ty.arr(seq.t)[sig(i)])),
                           patterns=[sig(i)]))
    st.pc.append(z3.ForAll([i], z3.Implies(z3.And(0 <= i, i < n),
                                           z3.And(0 <= inv(i), inv(i) < n, sig(inv(i)) == i)),
                           patterns=[inv(i)]))
    # stability: equal keys keep their relative order
    ksi, ksj = key_of(seq_get(seq, sig(i))), key_of(seq_get(seq, sig(j)))
    st.pc.append(z3.ForAll([i, j], z3.Implies(z3.And(0 <= i, i < j, j < n, equal(ksi, ksj)), sig(i) < sig(j)),
                           patterns=[z3.MultiPattern(sig(i), sig(j))]))
    st.ghost['_sigma'] = SV(T.Fun([T.INT], T.INT), sig)
    st.ghost['_sigma_inv'] = SV(T.Fun([T.INT], T.INT), inv)
    ex.ctx.assumptions_used.add('external:sorted(seq,key) returns a stable, key-ordered permutation of seq')
    return res


def eval_method(ex, node, base, meth, st, want):
    """Methods of by-value containers. Returns None if not applicable."""
    ty = base.ty
    f = node.func
    args = node.args
    if isinstance(ty, T.Opt) and not isinstance(ty.inner, T.Ref):
        ex.safety(st, z3.Not(ty.is_none(base.t)), 'method-on-None')
        inner = SV(ty.inner, ty.get(base.t))
        # mutation through Opt: wrap back
        if meth == 'append' and isinstance(ty.inner, T.Seq):
            x = ex.ev(args[0], st, ty.inner.elem)
            c = coerce(x, ty.inner.elem)
            if c is None:
                raise OutOfSubset('append %s to %s' % (x.ty, ty))
            newinner = seq_append(inner, c.t)
            ex.assign_back(f.value, SV(ty, ty.some(newinner.t)), st)
            return SV(T.NONE, z3.BoolVal(True))
        if meth in ('append', 'extend', 'pop', 'update', 'setdefault', 'remove'):
            raise OutOfSubset('mutating method on Optional container')
        return eval_method(ex, node, inner, meth, st, want)
    if isinstance(ty, T.Seq):
        if meth == 'append':
            x = ex.ev(args[0], st, ty.elem)
            if x.ty != ty.elem:
                raise OutOfSubset('append %s to %s' % (x.ty, ty))
            ex.assign_back(f.value, seq_append(base, x.t), st)
            return SV(T.NONE, z3.BoolVal(True))
        if meth == 'extend':
            x = ex.ev(args[0], st, ty)
            if x.ty == T.EMPTYSEQ:
                return SV(T.NONE, z3.BoolVal(True))
            if x.ty != ty:
                raise OutOfSubset('extend %s with %s' % (ty, x.ty))
            ex.assign_back(f.value, seq_concat(base, x), st)
            return SV(T.NONE, z3.BoolVal(True))
        if meth == 'pop':
            n = seq_len(base)
            if args:
                i = ex.ev(args[0], st, T.INT)
                if not (z3.is_int_value(i.t) and i.t.as_long() == 0):
                    raise OutOfSubset('pop(i) with i != 0')
                ex.safety(st, n > 0, 'pop-from-empty')
                ex.assign_back(f.value, seq_slice(base, z3.IntVal(1), None), st)
                return seq_get(base, z3.IntVal(0))
            ex.safety(st, n > 0, 'pop-from-empty')
            ex.assign_back(f.value, seq_slice(base, None, n - 1), st)
            return seq_get(base, n - 1)
        if meth == 'copy':
            return base
        if meth == 'remove':
            raise OutOfSubset('list.remove')
    if ty == T.EMPTYSEQ and meth in ('append',):
        x = ex.ev(args[0], st)
        ex.assign_back(f.value, seq_lit(x.ty, [x.t]), st)
        return SV(T.NONE, z3.BoolVal(True))
    if isinstance(ty, T.Map):
        if meth == 'get':
            k = ex.ev(args[0], st, ty.key)
            if k.ty != ty.key:
                raise OutOfSubset('map.get key %s' % k.ty)
            if len(args) > 1:
                d = ex.ev(args[1], st, ty.val)
                if d.ty != ty.val:
                    u = unify(d.ty, ty.val)
                    if u is None:
                        raise OutOfSubset('map.get default %s vs %s' % (d.ty, ty.val))
                    return SV(u, z3.If(map_has(base, k.t), coerce(map_get(base, k.t), u).t, coerce(d, u).t))
                return SV(ty.val, z3.If(map_has(base, k.t), map_get(base, k.t).t, d.t))
            if isinstance(ty.val, T.Opt):
                return SV(ty.val, z3.If(map_has(base, k.t), map_get(base, k.t).t, ty.val.none()))
            ot = T.Opt(ty.val)
            return SV(ot, z3.If(map_has(base, k.t), ot.some(map_get(base, k.t).t), ot.none()))
        if meth == 'setdefault':
            k = ex.ev(args[0], st, ty.key)
            d = ex.ev(args[1], st, ty.val)
            newv = z3.If(map_has(base, k.t), map_get(base, k.t).t, d.t)
            ex.assign_back(f.value, map_set(base, k.t, newv), st)
            return SV(ty.val, newv)
        if meth == 'pop' and len(args) == 2:
            k = ex.ev(args[0], st, ty.key)
            d = ex.ev(args[1], st)
            ov = map_get(base, k.t)
            u = unify(ov.ty, d.ty)
            if u is None:
                raise OutOfSubset('map.pop default')
            r = SV(u, z3.If(map_has(base, k.t), coerce(ov, u).t, coerce(d, u).t))
            ex.assign_back(f.value, map_del(base, k.t), st)
            return r
        if meth == 'copy':
            return base
        if meth in ('keys', 'values', 'items'):
            return SV(T.Fun([], T.NONE), None, extra=('mapview', meth, base))
        if meth == 'update':
            other = ex.ev(args[0], st, ty)
            if other.ty == T.EMPTYDICT:
                return SV(T.NONE, z3.BoolVal(True))
            if other.ty != ty:
                raise OutOfSubset('map.update with %s' % other.ty)
            k = z3.Const('k!up', ty.key.sort())
            has = z3.Lambda([k], z3.Or(ty.has(base.t)[k], ty.has(other.t)[k]))
            val = z3.Lambda([k], z3.If(ty.has(other.t)[k], ty.vals(other.t)[k], ty.vals(base.t)[k]))
            ex.assign_back(f.value, SV(ty, ty.mk(has, val)), st)
            return SV(T.NONE, z3.BoolVal(True))
    if ty == T.TREE:
        if meth == 'get':
            k = ex.ev(args[0], st, T.ATOM)
            ex.safety(st, T.is_TNode(base.t), 'get-on-non-dict')
            d = ex.ev(args[1], st, T.TREE) if len(args) > 1 else SV(T.TREE, T.TLeaf(T.VNone()))
            if d.ty != T.TREE:
                raise OutOfSubset('tree.get default %s' % d.ty)
            return SV(T.TREE, z3.If(T.thas(base.t)[k.t], T.tkids(base.t)[k.t], d.t))
        if meth == 'setdefault':
            k = ex.ev(args[0], st, T.ATOM)
            d = ex.ev(args[1], st, T.TREE)
            ex.safety(st, T.is_TNode(base.t), 'setdefault-on-non-dict')
            newv = z3.If(T.thas(base.t)[k.t], T.tkids(base.t)[k.t], d.t)
            ex.assign_back(f.value, SV(T.TREE, tree_set(base.t, k.t, newv)), st)
            return SV(T.TREE, newv)
        if meth == 'copy':
            ex.safety(st, z3.Or(T.is_TNode(base.t), T.is_TList(base.t)), 'copy-on-non-container')
            return base
        if meth in ('keys', 'values', 'items'):
            ex.safety(st, T.is_TNode(base.t), meth + '-on-non-dict')
            return SV(T.Fun([], T.NONE), None, extra=('treeview', meth, base))
        if meth == 'append':
            x = ex.ev(args[0], st, T.TREE)
            ex.safety(st, T.is_TList(base.t), 'append-on-non-list')
            ex.assign_back(f.value, SV(T.TREE, T.TList(T.llen(base.t) + 1,
                                                       z3.Store(T.larr(base.t), T.llen(base.t), x.t))), st)
            return SV(T.NONE, z3.BoolVal(True))
        if meth == 'pop' and len(args) == 2:
            k = ex.ev(args[0], st, T.ATOM)
            d = ex.ev(args[1], st)
            ex.safety(st, T.is_TNode(base.t), 'pop-on-non-dict')
            ot = T.Opt(T.TREE) if d.ty == T.NONE else T.TREE
            if d.ty == T.NONE:
                r = SV(ot, z3.If(T.thas(base.t)[k.t], ot.some(T.tkids(base.t)[k.t]), ot.none()))
            else:
                dd = coerce(d, T.TREE)
                r = SV(T.TREE, z3.If(T.thas(base.t)[k.t], T.tkids(base.t)[k.t], dd.t))
            ex.assign_back(f.value, SV(T.TREE, tree_del(base.t, k.t)), st)
            return r
        if meth == 'update':
            other = ex.ev(args[0], st, T.TREE)
            ex.safety(st, z3.And(T.is_TNode(base.t), T.is_TNode(other.t)), 'update-on-non-dict')
            k = z3.Const('k!up', T.AtomSort)
            has = z3.Lambda([k], z3.Or(T.thas(base.t)[k], T.thas(other.t)[k]))
            val = z3.Lambda([k], z3.If(T.thas(other.t)[k], T.tkids(other.t)[k], T.tkids(base.t)[k]))
            ex.assign_back(f.value, SV(T.TREE, T.TNode(has, val)), st)
            return SV(T.NONE, z3.BoolVal(True))
    if isinstance(ty, T.Rec):
        if meth == 'get' and isinstance(args[0], ast.Constant):
            k = args[0].value
            if k in ty.fields:
                return SV(ty.fields[k], ty.get(base.t, k))
            if len(args) > 1:
                return ex.ev(args[1], st, want)
            return SV(T.NONE, z3.BoolVal(True))
        if meth == 'copy':
            return base
    if ty == T.EMPTYDICT:
        if meth == 'get':
            if len(args) > 1:
                return ex.ev(args[1], st, want)
            return SV(T.NONE, z3.BoolVal(True))
        if meth in ('keys', 'values', 'items'):
            return SV(T.Fun([], T.NONE), None, extra=('emptyview', meth, base))
    if isinstance(ty, T.Union):
        cands = [(k, a) for k, a in ty.alts.items() if isinstance(a, (T.Map, T.Seq, T.Rec)) or a == T.TREE]
        if len(cands) == 1 and meth in ('get', 'copy', 'keys', 'items', 'values'):
            k, a = cands[0]
            ex.safety(st, ty.is_alt(base.t, k), 'method-on-' + k)
            return eval_method(ex, node, SV(a, ty.get(base.t, k)), meth, st, want)
    return None


# --------------------------------------------------------------------------
# calls by contract
# --------------------------------------------------------------------------

def resolve_contract(ex, node, method_of=None):
    f = node.func
    name = call_name(node)
    ovr = ex.contract.calls if ex.contract is not None else {}
    if method_of is not None:
        cls = method_of.ty.cls
        key = ovr.get(name) or ovr.get(cls + '.' + name)
        if key:
            return S.CONTRACTS[key], None
        # walk up the class hierarchy

        def find(c):
            for k, con in S.CONTRACTS.items():
                if con.qual == c + '.' + name and not getattr(con, 'variant', ''):
                    return con
            cm = S.CLASSES.get(c)
            if cm:
                for b in cm.bases:
                    r = find(b)
                    if r:
                        return r
            return None
        con = find(cls)
        if con is None:
            raise OutOfSubset('no contract for method %s.%s (line %s)' % (cls, name, node.lineno))
        return con, None
    if isinstance(f, ast.Attribute):
        # Class.static(...) or module.func(...)
        if isinstance(f.value, ast.Name):
            q = f.value.id + '.' + name
            key = ovr.get(q)
            if key:
                return S.CONTRACTS[key], None
            for k, con in S.CONTRACTS.items():
                if getattr(con, 'variant', ''):
                    continue
                if con.qual == q or k.endswith('.' + q) or k.endswith(':' + q):
                    return con, None
            for k, con in S.CONTRACTS.items():
                if con.qual == name and (con.module or '').endswith(f.value.id):
                    return con, None
            for k, con in S.CONTRACTS.items():
                if con.qual == name + '.__init__' and (con.module or '') == f.value.id:
                    return con, name
        raise OutOfSubset('no contract for %s (line %s)' % (ast.unparse(f), node.lineno))
    key = ovr.get(name)
    if key:
        return S.CONTRACTS[key], None
    # constructor?
    for k, con in S.CONTRACTS.items():
        if con.qual == name + '.__init__':
            return con, name
    cands = [con for k, con in S.CONTRACTS.items() if con.qual == name and not getattr(con, 'variant', '')]
    if len(cands) == 1:
        return cands[0], None
    if len(cands) > 1:
        # prefer same module
        same = [c for c in cands if ex.contract is not None and c.module == ex.contract.module]
        if len(same) == 1:
            return same[0], None
        raise OutOfSubset('ambiguous contract for %s' % name)
    raise OutOfSubset('no contract for function %s (line %s)' % (name, node.lineno))


def parse_exprs(lst):
    out = []
    for e in lst:
        if isinstance(e, ast.AST):
            out.append(e)
        else:
            try:
                out.append(ast.parse(e, mode='eval').body)
            except SyntaxError as exc:
                raise ContractDrift('cannot parse spec expression %r: %s' % (e, exc))
    return out


def frame_targets(ex, con, callee_self, st):
    """Heap locations a callee may modify: list of (class, field, ref-or-None)."""
    out = []
    for m in con.modifies:
        if m.startswith('self.'):
            if callee_self is None:
                raise ContractDrift('modifies %s without self' % m)
            out.append((callee_self.ty.cls, m[5:], callee_self.t))
        elif '.' in m:
            cls, fld = m.split('.', 1)
            out.append((cls, fld, None))      # any object of the class
        else:
            raise ContractDrift('modifies entry %r' % m)
    return out


def call_contract(ex, node, st, want, method_of=None):
    from .symex import State, Exec
    con, ctor_cls = resolve_contract(ex, node, method_of)
    sigs = ex.resolver.signature(con)
    params = list(sigs['params'])
    defaults = dict(sigs['defaults'])
    ctx = ex.ctx
    callee_env = {}
    callee_self = None
    if method_of is not None and params and params[0] == 'self':
        callee_self = method_of
        callee_env['self'] = method_of
        params = params[1:]
    elif ctor_cls is not None:
        # allocation
        newref = fresh('new_' + ctor_cls, T.Ref(ctor_cls))
        cnt_key = ('$alloc', 'next')
        if cnt_key not in st.heap:
            st.heap[cnt_key] = z3.Int('alloc!0')
            st.pc.append(st.heap[cnt_key] > 0)
        st.pc.append(newref == st.heap[cnt_key])
        nxt = z3.Int('alloc!%d' % next(_fresh_counter))
        st.pc.append(nxt == st.heap[cnt_key] + 1)
        st.heap[cnt_key] = nxt
        callee_self = SV(T.Ref(ctor_cls), newref)
        callee_env['self'] = callee_self
        params = params[1:]
    ctypes = {k: T.parse_type(v) for k, v in con.types.items()}
    # bind arguments
    argnodes = list(node.args)
    if len(argnodes) > len(params):
        raise OutOfSubset('too many arguments for %s' % con.key)
    bound_nodes = {}
    for p, an in zip(params, argnodes):
        bound_nodes[p] = an
    for kw in node.keywords:
        if kw.arg is None:
            raise OutOfSubset('**kwargs call')
        bound_nodes[kw.arg] = kw.value
    for p in params:
        pty = ctypes.get(p)
        if p in bound_nodes:
            v = ex.ev(bound_nodes[p], st, pty)
        elif p in defaults:
            v = ex.ev(defaults[p], st, pty)
        else:
            raise OutOfSubset('missing argument %s for %s' % (p, con.key))
        if isinstance(pty, T.Fun) and isinstance(v.ty, T.Fun):
            callee_env[p] = v
            continue
        if isinstance(v.ty, T.Opt) and pty is not None and v.ty.inner == pty:
            # Optional passed where a value is required: obligation that it is not None here
            ex.safety(st, z3.Not(v.ty.is_none(v.t)), 'argument-%s-not-None' % p)
            v = SV(pty, v.ty.get(v.t))
        if pty is not None and v.ty != pty and not isinstance(pty, T.Fun):
            c = coerce(v, pty)
            if c is None:
                raise OutOfSubset('argument %s of %s: %s vs declared %s (line %s)' % (p, con.key, v.ty, pty, node.lineno))
            v = c
        callee_env[p] = v
    # callee-side evaluator for spec expressions
    cex = Exec(ctx, con, con.types, ex.resolver, self_class=callee_self.ty.cls if callee_self else None)
    cex.cur_line = node.lineno
    cst = State()
    cst.env = dict(callee_env)
    cst.heap = st.heap            # shared (reads current caller heap)
    cst.pc = st.pc
    cst.ghost = {}
    saved_mode = ctx.mode
    # 1. preconditions become obligations of the caller
    label = '%s' % con.short
    if ctx.mode == 'code':
        ctx.mode = 'spec'
        try:
            inst_reqs = []
            if con.instances and len(con.instances) == 1:
                # the contract was proved only under the extra precondition of its single instance
                inst_reqs = list(con.instances[0].get('requires', []))
            elif con.instances and any(i_.get('requires') for i_ in con.instances):
                raise OutOfSubset('callee %s has several instances with preconditions' % con.key)
            for i, r in enumerate(parse_exprs(list(con.requires) + inst_reqs)):
                g = truthy(cex.ev(r, cst))
                cex.guards = list(ex.guards)
                ex.oblige(st, g, 'pre', '%s#%d@L%d' % (label, i, node.lineno), text=ast.unparse(r), lineno=node.lineno)
        finally:
            ctx.mode = saved_mode
    # 1b. a callee that raises under a stated condition: either the caller may raise then too, or it must not happen
    if con.raises is not None and con.raises.get('when') and ctx.mode == 'code':
        ctx.mode = 'spec'
        try:
            w = truthy(cex.ev(parse_exprs([con.raises['when']])[0], cst))
            mine = ex.contract.raises if ex.contract is not None else None
            if mine is not None and st.old is not None:
                ost = State()
                ost.env, ost.heap = dict(st.old.env), dict(st.old.heap)
                allowed = truthy(ex.ev(parse_exprs([mine['when']])[0], ost)) if mine.get('when') else z3.BoolVal(True)
                ex.oblige(st, z3.Implies(w, allowed), 'raises', 'propagated-from-%s@L%d' % (label, node.lineno),
                          text='callee raises when %s' % con.raises['when'], lineno=node.lineno)
            else:
                ex.oblige(st, z3.Not(w), 'raises', 'callee-must-not-raise-%s@L%d' % (label, node.lineno),
                          text='not (%s)' % con.raises['when'], lineno=node.lineno)
            st.pc.append(z3.Not(w))
        finally:
            ctx.mode = saved_mode
    if con.trusted:
        ctx.assumptions_used.add('trusted contract: %s%s' % (con.key, (' (' + con.why_trusted + ')') if con.why_trusted else ''))
    else:
        ctx.assumptions_used.add('callee contract (verified separately): ' + con.key)
    # recursion: decreases
    if ex.contract is not None and con.key == ex.contract.key and con.decreases and ctx.mode == 'code':
        ctx.mode = 'spec'
        try:
            d_new = cex.ev(parse_exprs([con.decreases])[0], cst)
            ost = State()
            ost.env = dict(st.old.env) if st.old is not None else {}
            ost.heap = st.old.heap if st.old is not None else {}
            d_old = ex.ev(parse_exprs([con.decreases])[0], ost)
            ex.oblige(st, z3.And(d_new.t >= 0, d_new.t < d_old.t), 'decreases', '%s@L%d' % (label, node.lineno),
                      lineno=node.lineno)
        finally:
            ctx.mode = saved_mode
    # 2. snapshot, havoc frame
    targets = frame_targets(ex, con, callee_self, st)
    for cls, fld, ref in targets:
        ex.heap_arr(st, cls, fld)          # make sure the field exists BEFORE the snapshot is taken
    for cname in ('Defer', 'Process', 'Store', 'Engine'):
        pass
    pre = State()
    pre.env = dict(callee_env)
    pre.heap = dict(st.heap)
    post = State()
    post.env = dict(callee_env)
    post.old = pre
    havocked = []
    for cls, fld, ref in targets:
        key, fty = ex.heap_arr(st, cls, fld)
        newarr = z3.Const('heap!%s.%s!%d' % (key[0], key[1], next(_fresh_counter)), z3.ArraySort(T.RefSort, fty.sort()))
        if ref is None:
            havocked.append((key, newarr))
        if ref is not None:
            hv = fresh('hv_' + fld, fty)
            st.heap[key] = z3.Store(st.heap[key], ref, hv)
            st.pc.extend(fty.wf(hv))
        else:
            st.heap[key] = newarr
            r = z3.Int('r!wf')
            wf = fty.wf(newarr[r])
            if wf:
                st.pc.append(z3.ForAll([r], z3.And(*wf), patterns=[newarr[r]]))
    if con.alloc and ctor_cls is None:
        cnt_key = ('$alloc', 'next')
        if cnt_key not in st.heap:
            st.heap[cnt_key] = z3.Int('alloc!0')
            st.pc.append(st.heap[cnt_key] > 0)
        nxt = z3.Int('alloc!%d' % next(_fresh_counter))
        st.pc.append(nxt >= st.heap[cnt_key])
        st.heap[cnt_key] = nxt
    if ('$alloc', 'next') in st.heap:
        for key, newarr in havocked:
            f = ex.ghost_default_fact(key, newarr, st.heap[('$alloc', 'next')])
            if f is not None:
                st.pc.append(f)
    for m in con.mutates:
        mty = ctypes.get(m) or callee_env[m].ty
        nv = fresh_sv('mut_' + m, mty)
        st.pc.extend(mty.wf(nv.t))
        post.env[m] = nv
    post.heap = st.heap
    post.pc = st.pc
    # 3. result
    rty = ctypes.get('ret')
    ret = None
    if ctor_cls is not None:
        ret = callee_self
    elif rty is not None:
        ret = fresh_sv('ret_' + con.short.replace('.', '_'), rty)
        st.pc.extend(rty.wf(ret.t))
        post.env['ret'] = ret
    # 4. assume postconditions
    ctx.mode = 'spec-assume'
    try:
        for e in parse_exprs(con.ensures):
            st.pc.append(truthy(cex.ev(e, post)))
    finally:
        ctx.mode = saved_mode
    # 5. write back mutated by-value arguments
    for m in con.mutates:
        if m in bound_nodes:
            try:
                ex.assign_back(bound_nodes[m], post.env[m], st)
            except OutOfSubset:
                if isinstance(bound_nodes[m], (ast.Dict, ast.List, ast.Tuple, ast.Call, ast.Constant)):
                    pass     # a temporary: nothing to write back
                else:
                    raise
    if ret is None:
        return SV(T.NONE, z3.BoolVal(True))
    return ret
