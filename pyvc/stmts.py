"""Statement execution: path enumeration, loops cut at invariants."""
import ast
import z3

from . import ty as T
from . import spec as S
from .symex import (SV, State, Exec, OutOfSubset, ContractDrift, XREAL, fresh, fresh_sv, truthy, coerce, unify,
                    seq_len, seq_get, map_has, map_get, _fresh_counter)
from .calls import parse_exprs, is_ignored_call, lemma_instance


class Outcome:
    """Result of executing a block on one path."""
    __slots__ = ('st', 'kind', 'val')

    def __init__(self, st, kind, val=None):
        self.st, self.kind, self.val = st, kind, val


def assigned_names(nodes):
    """Names (and alias-able bases) assigned anywhere in a list of statements."""
    names = set()

    class V(ast.NodeVisitor):
        def visit_Assign(self, n):
            for t in n.targets:
                self._t(t)
            self.generic_visit(n)

        def visit_AugAssign(self, n):
            self._t(n.target)
            self.generic_visit(n)

        def visit_AnnAssign(self, n):
            self._t(n.target)
            self.generic_visit(n)

        def visit_For(self, n):
            self._t(n.target)
            self.generic_visit(n)

        def visit_Delete(self, n):
            for t in n.targets:
                self._t(t)

        def visit_Call(self, n):
            # mutating methods on names: x.append(...), x.pop(...), x.update(...), x.setdefault(...)
            f = n.func
            if isinstance(f, ast.Attribute) and f.attr in ('append', 'extend', 'pop', 'update', 'setdefault',
                                                           'remove', 'add', 'clear', 'insert'):
                self._t(f.value)
            self.generic_visit(n)

        def _t(self, t):
            if isinstance(t, ast.Name):
                names.add(t.id)
            elif isinstance(t, (ast.Tuple, ast.List)):
                for e in t.elts:
                    self._t(e)
            elif isinstance(t, ast.Subscript):
                # a store into a by-value container held in a local re-binds that local;
                # a store through an object attribute (obj.f[k] = ..) changes the heap, not the local `obj`
                self._t(t.value)
            elif isinstance(t, ast.Attribute):
                pass
            elif isinstance(t, ast.Starred):
                self._t(t.value)
    v = V()
    for n in nodes:
        v.visit(n)
    return names


def callee_mutated(nodes):
    """local names of by-value containers that a loop body changes IN PLACE: subscript stores, mutating methods, and
    arguments bound to a parameter that a callee's contract lists under `mutates`.  They must be havocked when the loop is
    cut, exactly like assigned names."""
    from .driver import mutated_names
    return {n for n in mutated_names(list(nodes)) if n != 'self'}


def written_fields(nodes):
    """attribute names stored through obj.attr = / obj.attr[...] = / obj.attr.method() in statements.
    Returns a set of names; names written ONLY through the receiver `self` are also in .only_self"""
    out = _FieldSet()

    class V(ast.NodeVisitor):
        def _t(self, t):
            if isinstance(t, ast.Attribute):
                out.add(t.attr)
                if not (isinstance(t.value, ast.Name) and t.value.id == 'self'):
                    out.not_self.add(t.attr)
                self._t(t.value)
            elif isinstance(t, ast.Subscript):
                self._t(t.value)
            elif isinstance(t, (ast.Tuple, ast.List)):
                for e in t.elts:
                    self._t(e)

        def visit_Assign(self, n):
            for t in n.targets:
                self._t(t)
            self.generic_visit(n)

        def visit_AugAssign(self, n):
            self._t(n.target)
            self.generic_visit(n)

        def visit_Delete(self, n):
            for t in n.targets:
                self._t(t)

        def visit_Call(self, n):
            f = n.func
            if isinstance(f, ast.Attribute) and f.attr in ('append', 'extend', 'pop', 'update', 'setdefault',
                                                           'remove', 'add', 'clear', 'insert'):
                before = set(out)
                self._t(f.value)
                out.only_by_method |= (set(out) - before)
            self.generic_visit(n)
    v = V()
    for n in nodes:
        v.visit(n)
    return out


class _FieldSet(set):
    def __init__(self):
        super().__init__()
        self.not_self = set()
        self.only_by_method = set()     # fields seen only as receivers of mutating-looking method calls


class Runner:
    """Executes statements of one function body."""

    def __init__(self, ex: Exec):
        self.ex = ex
        self.ctx = ex.ctx
        self.loop_index = 0
        self.max_paths = 4000

    # -- blocks -------------------------------------------------------------
    def run_block(self, stmts, st):
        """Returns list of Outcome. kind in next|return|break|continue|raise."""
        outs = [Outcome(st, 'next')]
        for s in stmts:
            nxt = []
            for o in outs:
                if o.kind != 'next':
                    nxt.append(o)
                    continue
                nxt.extend(self.run_stmt(s, o.st))
            outs = nxt
            if len(outs) > self.max_paths:
                raise OutOfSubset('path explosion (> %d paths)' % self.max_paths)
        return outs

    def run_stmt(self, s, st):
        self.ex.cur_line = getattr(s, 'lineno', self.ex.cur_line)
        # abstracted statements
        con = self.ex.contract
        if con is not None and con.abstract:
            txt = ast.unparse(s)
            for a in con.abstract:
                if txt.startswith(a):
                    return self.abstract_stmt(s, st)
        m = getattr(self, 'st_' + type(s).__name__, None)
        if m is None:
            raise OutOfSubset('statement %s at line %s' % (type(s).__name__, s.lineno))
        ghost = self.ghost_for(s) if not getattr(s, '_is_ghost', False) else None
        if ghost and ghost.get('before'):
            self.run_ghost(ghost['before'], st, s.lineno)
        outs = m(s, st)
        if ghost and ghost.get('after'):
            for o in outs:
                if o.kind == 'next':
                    self.run_ghost(ghost['after'], o.st, s.lineno)
        return outs

    def ghost_assigned(self, stmts):
        con = self.ex.contract
        out = set()
        if con is None or not con.ghost:
            return out
        for st_ in stmts:
            for n in ast.walk(st_):
                if isinstance(n, ast.stmt):
                    g = self.ghost_for(n, mark=False)
                    if g:
                        for src in list(g.get('before', [])) + list(g.get('after', [])):
                            try:
                                node = ast.parse(src).body[0]
                            except SyntaxError:
                                continue
                            if isinstance(node, ast.Assign) and isinstance(node.targets[0], ast.Name):
                                out.add(node.targets[0].id)
        return out

    def ghost_for(self, s, mark=True):
        con = self.ex.contract
        if con is None or not con.ghost:
            return None
        if isinstance(s, (ast.For, ast.While, ast.If, ast.Try)):
            txt = ast.unparse(s).split('\n')[0]
        else:
            txt = ast.unparse(s)
        for anchor, g in con.ghost.items():
            if txt.startswith(anchor):
                if mark:
                    self.ctx.reached.add('ghost:' + anchor)
                return g
        return None

    def run_ghost(self, stmts, st, lineno):
        """Ghost code from the sidecar: `assert e`, `assume_lemma ...`, and assignments to ghost fields /
        ghost locals only (checked)."""
        for src in stmts:
            try:
                node = ast.parse(src).body[0]
            except SyntaxError as e:
                raise ContractDrift('ghost statement %r: %s' % (src, e))
            node._is_ghost = True
            for n in ast.walk(node):
                n.lineno = lineno
                n.col_offset = 0
            if isinstance(node, ast.Assert):
                saved = self.ctx.mode
                self.ctx.mode = 'spec'
                try:
                    g = truthy(self.ex.ev(node.test, st))
                    self.ex.oblige(st, g, 'assert', 'ghost@L%d' % lineno, text=src)
                finally:
                    self.ctx.mode = saved
                st.pc.append(g)
            elif isinstance(node, ast.Expr) and isinstance(node.value, ast.Call) and \
                    isinstance(node.value.func, ast.Name) and node.value.func.id == 'assume_env':
                # environment assumption (behaviour of user code / known-finding region): listed in the evidence
                saved = self.ctx.mode
                self.ctx.mode = 'spec-assume'
                try:
                    g = truthy(self.ex.ev(node.value.args[0], st))
                finally:
                    self.ctx.mode = saved
                st.pc.append(g)
                why = node.value.args[1].value if len(node.value.args) > 1 else ''
                self.ctx.assumptions_used.add('ENVIRONMENT ASSUMPTION in %s: %s  [%s]'
                                              % (self.ctx.fname, ast.unparse(node.value.args[0]), why))
            elif isinstance(node, ast.Assign):
                tgt = node.targets[0]
                if isinstance(tgt, ast.Attribute):
                    if not tgt.attr.startswith('g_'):
                        raise ContractDrift('ghost code may only assign ghost fields (g_*): %r' % src)
                elif isinstance(tgt, ast.Name):
                    if not tgt.id.startswith('g_'):
                        raise ContractDrift('ghost code may only assign ghost locals (g_*): %r' % src)
                else:
                    raise ContractDrift('ghost assignment target: %r' % src)
                saved = self.ctx.mode
                self.ctx.mode = 'spec'
                try:
                    self.st_Assign(node, st)
                finally:
                    self.ctx.mode = saved
            else:
                raise ContractDrift('unsupported ghost statement %r' % src)

    def abstract_stmt(self, s, st):
        # havoc every local the statement assigns; it must not call anything under contract
        for n in ast.walk(s):
            if isinstance(n, ast.Call) and not is_ignored_call(n):
                nm = n.func.attr if isinstance(n.func, ast.Attribute) else getattr(n.func, 'id', None)
                for k, c in S.CONTRACTS.items():
                    if c.qual.split('.')[-1] == nm and not c.trusted:
                        raise ContractDrift('abstracted statement calls %s which has a contract' % nm)
        for n in assigned_names([s]):
            if n in st.env:
                st.env[n] = fresh_sv('abs_' + n, st.env[n].ty)
            else:
                dt = self.ex.declared(n)
                if dt is not None:
                    st.env[n] = fresh_sv('abs_' + n, dt)
        self.ctx.assumptions_used.add('abstracted statement (havoc): ' + ast.unparse(s)[:60])
        return [Outcome(st, 'next')]

    # -- simple statements --------------------------------------------------
    def st_Pass(self, s, st):
        return [Outcome(st, 'next')]

    def st_Expr(self, s, st):
        v = s.value
        if isinstance(v, ast.Constant):
            return [Outcome(st, 'next')]
        if isinstance(v, ast.Call) and isinstance(v.func, ast.Name):
            nm = v.func.id
            if nm == 'hint' and self.ctx.mode == 'code':
                # proof hint inside a lemma body: assert-and-assume
                g = truthy(self.ex.ev(v.args[0], st))
                self.ex.oblige(st, g, 'assert', 'hint@L%d' % s.lineno, text=ast.unparse(v.args[0]))
                st.pc.append(g)
                return [Outcome(st, 'next')]
            if nm in S.LEMMAS:
                # lemma call inside a proof body: assert pre, assume post
                lm = S.LEMMAS[nm]
                args = [self.ex.ev(a, st) for a in v.args]
                self.lemma_call(lm, args, st, s.lineno)
                return [Outcome(st, 'next')]
        self.ex.ev(v, st)
        return [Outcome(st, 'next')]

    def lemma_call(self, lm, args, st, lineno):
        ex = self.ex
        st2 = State()
        st2.heap = dict(st.heap)
        st2.pc = st.pc
        ptypes = [T.parse_type(lm.types[p]) for p in lm.params]
        for p, pt, a in zip(lm.params, ptypes, args):
            c = coerce(a, pt)
            if c is None:
                raise OutOfSubset('lemma %s argument %s vs %s' % (lm.name, a.ty, pt))
            st2.env[p] = c
        saved_types = ex.types
        ex.types = dict(ex.types)
        ex.types.update(lm.types)
        ex.types.update(lm.local_types)
        saved = self.ctx.mode
        try:
            self.ctx.mode = 'spec'
            for i, r in enumerate(lm.requires):
                g = truthy(ex.ev(r, st2))
                ex.oblige(st, g, 'pre', '%s#%d@L%d' % (lm.name, i, lineno), text=ast.unparse(r), lineno=lineno)
            # recursion measure
            cur = self.ctx.current_lemma if hasattr(self.ctx, 'current_lemma') else None
            if cur is not None and cur.name == lm.name and lm.decreases:
                dn = ex.ev(ast.parse(lm.decreases, mode='eval').body, st2)
                ost = State()
                ost.env = dict(st.old.env)
                do = ex.ev(ast.parse(lm.decreases, mode='eval').body, ost)
                ex.oblige(st, z3.And(dn.t >= 0, dn.t < do.t), 'decreases', '%s@L%d' % (lm.name, lineno), lineno=lineno)
            self.ctx.mode = 'spec-assume'
            for e in lm.ensures:
                st.pc.append(truthy(ex.ev(e, st2)))
        finally:
            self.ctx.mode = saved
            ex.types = saved_types
        self.ctx.assumptions_used.add('lemma:' + lm.name)

    def st_Assign(self, s, st):
        if len(s.targets) != 1:
            raise OutOfSubset('chained assignment')
        tgt = s.targets[0]
        want = None
        if isinstance(tgt, ast.Name) and tgt.id == '_':
            self.ex.ev(s.value, st)          # `_ = expr`: evaluated (for its safety obligations) and discarded
            return [Outcome(st, 'next')]
        if isinstance(tgt, ast.Name):
            want = self.ex.declared(tgt.id)
            if want is None and tgt.id in st.env and st.env[tgt.id].ty not in (T.EMPTYDICT, T.EMPTYSEQ, T.NONE):
                want = st.env[tgt.id].ty
        elif isinstance(tgt, ast.Attribute):
            try:
                base = self.ex.ev(tgt.value, st)
                if isinstance(base.ty, T.Ref):
                    _, want = self.ex.heap_arr(st, base.ty.cls, tgt.attr)
            except OutOfSubset:
                want = None
        elif isinstance(tgt, ast.Subscript):
            want = self.slot_type(tgt, st)
        # borrow: `x = d[k]` / `x = self.f[k]` of a by-value container creates an alias for write-through
        val = self.ex.ev(s.value, st, want)
        if isinstance(tgt, ast.Name) and self.is_place(s.value) and self.is_container(val.ty) \
                and self.mutated_later(tgt.id):
            st.env.pop(tgt.id, None)
            st.alias[tgt.id] = s.value
            self.ctx.assumptions_used.add('borrow: local `%s` aliases `%s`' % (tgt.id, ast.unparse(s.value)))
            return [Outcome(st, 'next')]
        self.ex.assign(tgt, val, st)
        return [Outcome(st, 'next')]

    def slot_type(self, tgt, st):
        try:
            base = self.ex.ev(tgt.value, st)
        except OutOfSubset:
            return None
        ty = base.ty
        if isinstance(ty, T.Opt):
            ty = ty.inner
        if isinstance(ty, T.Map):
            return ty.val
        if isinstance(ty, T.Seq):
            return ty.elem
        if ty == T.TREE:
            return T.TREE
        if isinstance(ty, T.Rec) and isinstance(tgt.slice, ast.Constant):
            return ty.fields.get(tgt.slice.value)
        return None

    def is_place(self, node):
        return isinstance(node, ast.Subscript) and not isinstance(node.slice, ast.Slice)

    def is_container(self, ty):
        return isinstance(ty, (T.Seq, T.Map, T.Rec)) or ty == T.TREE

    def mutated_later(self, name):
        return name in getattr(self.ex, 'mutated_names', set())

    def st_AnnAssign(self, s, st):
        if s.value is None:
            return [Outcome(st, 'next')]
        want = self.ex.declared(s.target.id) if isinstance(s.target, ast.Name) else None
        val = self.ex.ev(s.value, st, want)
        self.ex.assign(s.target, val, st)
        return [Outcome(st, 'next')]

    def st_AugAssign(self, s, st):
        cur = ast.BinOp(left=self._as_load(s.target), op=s.op, right=s.value)
        ast.copy_location(cur, s)
        ast.fix_missing_locations(cur)
        val = self.ex.ev(cur, st)
        self.ex.assign(s.target, val, st)
        return [Outcome(st, 'next')]

    def _as_load(self, t):
        import copy
        t2 = copy.deepcopy(t)
        for n in ast.walk(t2):
            if hasattr(n, 'ctx'):
                n.ctx = ast.Load()
        return t2

    def st_Delete(self, s, st):
        for t in s.targets:
            if not isinstance(t, ast.Subscript):
                raise OutOfSubset('del of non-subscript')
            base = self.ex.ev(t.value, st)
            ty = base.ty
            if isinstance(ty, T.Map):
                k = self.ex.ev(t.slice, st, ty.key)
                self.ex.safety(st, map_has(base, k.t), 'del-key-present')
                from .symex import map_del
                self.ex.assign_back(t.value, map_del(base, k.t), st)
            elif ty == T.TREE:
                k = self.ex.ev(t.slice, st, T.ATOM)
                self.ex.safety(st, z3.And(T.is_TNode(base.t), T.thas(base.t)[k.t]), 'del-key-present')
                from .symex import tree_del
                self.ex.assign_back(t.value, SV(T.TREE, tree_del(base.t, k.t)), st)
            else:
                raise OutOfSubset('del on %s' % ty)
        return [Outcome(st, 'next')]

    def st_Return(self, s, st):
        if s.value is None:
            return [Outcome(st, 'return', SV(T.NONE, z3.BoolVal(True)))]
        want = self.ex.declared('ret')
        v = self.ex.ev(s.value, st, want)
        return [Outcome(st, 'return', v)]

    def st_Raise(self, s, st):
        return [Outcome(st, 'raise', s)]

    def st_Assert(self, s, st):
        g = truthy(self.ex.ev(s.test, st))
        self.ex.oblige(st, g, 'assert', 'L%d' % s.lineno, text=ast.unparse(s.test))
        st.pc.append(g)
        return [Outcome(st, 'next')]

    def st_Continue(self, s, st):
        return [Outcome(st, 'continue')]

    def st_Break(self, s, st):
        return [Outcome(st, 'break')]

    def st_If(self, s, st):
        # `if xs: for x in xs: ...` is the loop alone (an empty sequence / mapping runs no iteration): no path split
        if isinstance(s.test, ast.Name) and not s.orelse and len(s.body) == 1 and isinstance(s.body[0], ast.For):
            it = s.body[0].iter
            if isinstance(it, ast.Name) and it.id == s.test.id and not s.body[0].orelse:
                tv = self.ex.ev(s.test, st)
                if isinstance(tv.ty, (T.Seq, T.Map)) or tv.ty in (T.EMPTYSEQ, T.EMPTYDICT):
                    return self.run_stmt(s.body[0], st)
        c = truthy(self.ex.ev(s.test, st))
        c = z3.simplify(c)
        outs = []
        if not z3.is_false(c):
            s1 = st.copy() if not z3.is_true(c) else st
            if not z3.is_true(c):
                s1.pc.append(c)
            if z3.is_true(c) or self.ex.feasible(s1):
                outs.extend(self.run_block(s.body, s1))
        if not z3.is_true(c):
            s2 = st.copy() if not z3.is_false(c) else st
            if not z3.is_false(c):
                s2.pc.append(z3.Not(c))
            if z3.is_false(c) or self.ex.feasible(s2):
                outs.extend(self.run_block(s.orelse, s2) if s.orelse else [Outcome(s2, 'next')])
        return outs

    def st_Try(self, s, st):
        # only the shape: try: <body> except <...>: <handler that re-raises or tolerates>.
        # The body is executed; reachable raises inside go through the normal `raise` handling.
        self.ctx.assumptions_used.add('try/except at L%d: handler not modelled (body verified raise-free '
                                      'or raising per contract)' % s.lineno)
        return self.run_block(s.body, st)

    # -- loops --------------------------------------------------------------
    def loop_spec(self, s, kind):
        # ordinal of the loop in SOURCE order (a loop may be reached by several paths)
        order = getattr(self, '_loop_order', None)
        if order is None:
            order = self._loop_order = {}
        key = (s.lineno, s.col_offset)
        if key not in order:
            body = getattr(self.ex, 'function_body', None)
            if body is not None and not order:
                loops = sorted({(n.lineno, n.col_offset) for st_ in body for n in ast.walk(st_)
                                if isinstance(n, (ast.For, ast.While))})
                for i, k in enumerate(loops):
                    order[k] = i
            if key not in order:
                order[key] = len(order)
        idx = order[key]
        con = self.ex.contract
        loops = con.loops if con is not None else {}
        spec = None
        for k, v in loops.items():
            if k == idx or (isinstance(k, tuple) and k[0] == idx):
                if isinstance(k, tuple) and len(k) > 1:
                    hdr = ast.unparse(s.target) + ' in ' + ast.unparse(s.iter) if kind == 'for' else ast.unparse(s.test)
                    if k[1] not in hdr:
                        raise ContractDrift('loop %d header %r does not contain anchor %r' % (idx, hdr, k[1]))
                spec = v
        if spec is None:
            spec = {}
        self.ctx.loop_contracts[idx] = spec
        return idx, spec

    def st_For(self, s, st):
        if s.orelse:
            raise OutOfSubset('for-else')
        idx, spec = self.loop_spec(s, 'for')
        it = s.iter
        ex = self.ex
        # classify iteration
        mode, payload = self.classify_iter(it, st)
        invs = parse_exprs(spec.get('invariant', []))
        hints = parse_exprs(spec.get('hints', []))
        body_assigned = assigned_names(s.body) | assigned_names([ast.Assign(targets=[s.target], value=ast.Constant(value=None))]) \
            | self.ghost_assigned(s.body) | callee_mutated(s.body)
        body_fields = written_fields(s.body)
        # a dict-loop value variable that is mutated in place writes through to the iterated container
        nd = it
        if isinstance(nd, ast.Call) and isinstance(nd.func, ast.Name) and nd.func.id == 'list' and nd.args:
            nd = nd.args[0]
        if isinstance(nd, ast.Call) and isinstance(nd.func, ast.Attribute) and nd.func.attr in ('items', 'values'):
            tv = s.target.elts[1] if (isinstance(s.target, ast.Tuple) and len(s.target.elts) == 2) else s.target
            if isinstance(tv, ast.Name) and self.mutated_later(tv.id):
                root = nd.func.value
                through_heap = False
                while isinstance(root, (ast.Subscript, ast.Attribute)):
                    if isinstance(root, ast.Attribute):
                        body_fields.add(root.attr)
                        through_heap = True
                    root = root.value
                if isinstance(root, ast.Name) and not through_heap:
                    body_assigned.add(root.id)
        label = 'loop%d' % idx
        self._saved_ghost = getattr(self, '_saved_ghost', [])
        outer_ghost = {g: st.ghost.get(g) for g in ('_i', '_done', '_k', '_entry', '_pre')}
        pre_loop = st.copy()
        st.ghost['_entry'] = pre_loop
        # ghost vars at entry
        if mode == 'seq':
            seq = payload
            st.ghost['_i'] = SV(T.INT, z3.IntVal(0))
            st.ghost['_seq'] = seq           # the iterated sequence (e.g. the result of sorted(...))
        elif mode == 'range':
            lo, hi = payload
            st.ghost['_i'] = SV(T.INT, lo)
        else:
            mp = payload
            kty = T.ATOM if mp.ty == T.TREE else mp.ty.key
            st.ghost['_done'] = SV(T.Map(kty, T.BOOL), None, extra='doneset')
            done0 = z3.K(kty.sort(), z3.BoolVal(False))
            st.ghost['_done'] = SV(_SetTy(kty), done0)
        # 1. invariants hold on entry
        self.assert_invs(invs, st, 'inv-entry', label)
        # 2. havoc everything the body may modify
        hst = st.copy()
        hst.ghost['_pre'] = None
        self.havoc_for_loop(hst, body_assigned, body_fields, s.body, spec)
        if mode in ('seq', 'range'):
            i = z3.Int('_i!%d' % next(_fresh_counter))
            hst.ghost['_i'] = SV(T.INT, i)
        else:
            d = z3.Const('_done!%d' % next(_fresh_counter), z3.ArraySort(kty.sort(), z3.BoolSort()))
            hst.ghost['_done'] = SV(_SetTy(kty), d)
        hst.ghost['_entry'] = pre_loop
        # 3. assume invariants at arbitrary iteration
        self.assume_invs(invs, hst)
        self.assume_hints(hints, hst)
        outs = []
        # 3a. one arbitrary iteration
        bst = hst.copy()
        if mode == 'seq':
            bst.pc.append(z3.And(0 <= i, i < seq_len(seq)))
            self.bind_target(s.target, seq_get(seq, i), bst, it, i)
        elif mode == 'range':
            bst.pc.append(z3.And(lo <= i, i < hi))
            self.bind_target(s.target, SV(T.INT, i), bst, it, i)
        else:
            k = z3.Const('_k!%d' % next(_fresh_counter), kty.sort())
            has_k = (z3.And(T.is_TNode(mp.t), T.thas(mp.t)[k])) if mp.ty == T.TREE else map_has(mp, k)
            bst.pc.append(z3.And(has_k, z3.Not(d[k])))
            bst.ghost['_k'] = SV(kty, k)
            self.bind_map_target(s.target, it, mp, k, bst)
        if self.ex.feasible(bst):
            self.ctx.reached.add('loop%d-body' % idx)
            for o in self.run_block(s.body, bst):
                if o.kind in ('next', 'continue'):
                    nst = o.st
                    if mode in ('seq', 'range'):
                        nst.ghost['_i'] = SV(T.INT, i + 1)
                    else:
                        nst.ghost['_done'] = SV(_SetTy(kty), z3.Store(d, k, True))
                    self.assume_hints(hints, nst)
                    self.assert_invs(invs, nst, 'inv-step', label)
                elif o.kind == 'break':
                    outs.append(Outcome(self.leave_loop(o.st, outer_ghost), 'next'))
                else:
                    outs.append(Outcome(self.leave_loop(o.st, outer_ghost), o.kind, o.val))
        # 3b. normal exit
        est = hst
        if mode == 'seq':
            est.pc.append(i == seq_len(seq))
        elif mode == 'range':
            est.pc.append(i == z3.If(hi > lo, hi, lo))
        else:
            kk = z3.Const('k!ex%d' % next(_fresh_counter), kty.sort())
            has_kk = (z3.And(T.is_TNode(mp.t), T.thas(mp.t)[kk])) if mp.ty == T.TREE else map_has(mp, kk)
            est.pc.append(z3.ForAll([kk], d[kk] == has_kk))
        outs.append(Outcome(self.leave_loop(est, outer_ghost), 'next'))
        return outs

    def leave_loop(self, st, outer=None):
        for g in ('_i', '_done', '_k', '_entry', '_pre', '_seq'):
            st.ghost.pop(g, None)
            if outer and outer.get(g) is not None:
                st.ghost[g] = outer[g]
        return st

    def classify_iter(self, it, st):
        ex = self.ex
        if isinstance(it, ast.Call) and isinstance(it.func, ast.Name) and it.func.id == 'range':
            args = [ex.ev(a, st, T.INT).t for a in it.args]
            lo, hi = (z3.IntVal(0), args[0]) if len(args) == 1 else (args[0], args[1])
            return 'range', (lo, hi)
        if isinstance(it, ast.Call) and isinstance(it.func, ast.Name) and it.func.id in ('enumerate',):
            seq = ex.ev(it.args[0], st)
            if isinstance(seq.ty, T.Seq):
                return 'seq', seq
            raise OutOfSubset('enumerate over %s' % seq.ty)
        if isinstance(it, ast.Call) and isinstance(it.func, ast.Name) and it.func.id == 'zip':
            raise OutOfSubset('zip loop')
        node = it
        if isinstance(node, ast.Call) and isinstance(node.func, ast.Name) and node.func.id == 'list' and node.args:
            node = node.args[0]
        v = ex.ev(node, st)
        if isinstance(v.ty, T.Opt):
            ex.safety(st, z3.Not(v.ty.is_none(v.t)), 'iterate-None')
            v = SV(v.ty.inner, v.ty.get(v.t))
        if isinstance(v.ty, T.Fun) and v.extra and v.extra[0] in ('mapview', 'treeview'):
            return 'map:' + v.extra[1], v.extra[2]
        if isinstance(v.ty, T.Fun) and v.extra and v.extra[0] == 'emptyview':
            mt = T.Map(T.ATOM, T.TREE)
            return 'map:' + v.extra[1], SV(mt, mt.empty())
        if isinstance(v.ty, T.Seq):
            return 'seq', v
        if v.ty == T.EMPTYSEQ:
            return 'seq', SV(T.Seq(T.INT), T.Seq(T.INT).empty())
        if isinstance(v.ty, T.Map):
            return 'map:keys', v
        if v.ty == T.TREE:
            # iterating a dict (keys) -- or a list
            ex.safety(st, z3.Or(T.is_TNode(v.t), T.is_TList(v.t)), 'iterate-non-container')
            if getattr(self.ex, 'tree_iter_as_list', False):
                raise OutOfSubset('tree list iteration')
            st.pc.append(T.is_TNode(v.t)) if False else None
            return 'map:keys', v
        raise OutOfSubset('iteration over %s' % v.ty)

    def bind_target(self, target, elem, st, it, i):
        if isinstance(it, ast.Call) and isinstance(it.func, ast.Name) and it.func.id == 'enumerate':
            if not (isinstance(target, ast.Tuple) and len(target.elts) == 2):
                raise OutOfSubset('enumerate target')
            self.ex.assign(target.elts[0], SV(T.INT, i), st)
            self.ex.assign(target.elts[1], elem, st)
            return
        self.ex.assign(target, elem, st)

    def bind_map_target(self, target, it, mp, k, st):
        kind = 'keys'
        node = it
        if isinstance(node, ast.Call) and isinstance(node.func, ast.Name) and node.func.id == 'list' and node.args:
            node = node.args[0]
        if isinstance(node, ast.Call) and isinstance(node.func, ast.Attribute) and node.func.attr in ('items', 'values', 'keys'):
            kind = node.func.attr
            place = node.func.value
        else:
            place = node
        kty = T.ATOM if mp.ty == T.TREE else mp.ty.key
        ksv = SV(kty, k)
        if mp.ty == T.TREE:
            vsv = SV(T.TREE, T.tkids(mp.t)[k])
        else:
            vsv = map_get(mp, k)
        if kind == 'keys':
            self.ex.assign(target, ksv, st)
        elif kind == 'values':
            self.bind_value(target, vsv, place, st)
        else:
            if not (isinstance(target, ast.Tuple) and len(target.elts) == 2):
                raise OutOfSubset('items() target')
            self.ex.assign(target.elts[0], ksv, st)
            self.bind_value(target.elts[1], vsv, place, st, keyname=target.elts[0])

    def bind_value(self, target, vsv, place, st, keyname=None):
        """Bind the value variable of a dict loop.  If the body mutates it in place it becomes a
        borrowed alias of place[key] (write-through), otherwise a plain local."""
        if isinstance(target, ast.Name) and self.is_container(vsv.ty) and self.mutated_later(target.id):
            if keyname is None or not isinstance(keyname, ast.Name):
                raise OutOfSubset('in-place mutation of dict-loop value without a key variable')
            sub = ast.Subscript(value=place, slice=ast.Name(id=keyname.id, ctx=ast.Load()), ctx=ast.Load())
            ast.fix_missing_locations(sub)
            st.env.pop(target.id, None)
            st.alias[target.id] = sub
            self.ctx.assumptions_used.add('borrow: loop value `%s` aliases `%s`' % (target.id, ast.unparse(sub)))
            return
        self.ex.assign(target, vsv, st)

    def havoc_for_loop(self, st, names, fields, body, spec):
        """Havoc locals assigned in the loop body and heap fields written (directly or by callees)."""
        for n in names:
            if n in st.alias:
                continue
            if n in st.env:
                ty = st.env[n].ty
                if ty in (T.EMPTYDICT, T.EMPTYSEQ, T.NONE):
                    dt = self.ex.declared(n)
                    if dt is None:
                        raise OutOfSubset('loop-modified local %s has no concrete type; declare it' % n)
                    ty = dt
                v = fresh_sv('lp_' + n, ty)
                st.pc.extend(ty.wf(v.t))
                st.env[n] = v
        # heap: fields stored directly in the body
        touched = {}          # key -> True if every writer goes through the receiver `self`

        def touch(key, via_self):
            touched[key] = touched.get(key, True) and via_self
        not_self = getattr(fields, 'not_self', set())
        by_method = getattr(fields, 'only_by_method', set())

        def is_ref_field(cls, fld):
            try:
                fty = T.parse_type(S.CLASSES[cls].all_fields()[fld])
            except Exception:
                return False
            return isinstance(fty, T.Ref) or (isinstance(fty, T.Opt) and isinstance(fty.inner, T.Ref))
        for (cls, fld) in list(st.heap.keys()):
            if cls == '$alloc':
                continue
            if fld in fields:
                if fld in by_method and is_ref_field(cls, fld):
                    continue       # obj.method(): a call on the referenced object, not a write of the field
                touch((cls, fld), fld not in not_self)
        for fld in fields:
            # fields not read yet: resolve through the class of `self` if possible
            if self.ex.self_class:
                try:
                    dc = self.ex.field_decl_class(self.ex.self_class, fld)
                    if fld in by_method and is_ref_field(dc, fld):
                        continue
                    touch((dc, fld), fld not in not_self)
                except OutOfSubset:
                    pass
        # heap: frames of callees in the body
        for n in ast.walk(ast.Module(body=body, type_ignores=[])):
            if isinstance(n, ast.Call) and not is_ignored_call(n):
                nm = n.func.attr if isinstance(n.func, ast.Attribute) else getattr(n.func, 'id', None)
                recv_self = isinstance(n.func, ast.Attribute) and isinstance(n.func.value, ast.Name) and n.func.value.id == 'self'
                container_like = nm in ('update', 'append', 'extend', 'get', 'pop', 'items', 'keys', 'values', 'copy',
                                        'setdefault', 'remove', 'add')
                recv_cls = None
                if isinstance(n.func, ast.Attribute) and isinstance(n.func.value, ast.Name):
                    rn = n.func.value.id
                    if rn == 'self':
                        recv_cls = self.ex.self_class
                    else:
                        dt = self.ex.declared(rn)
                        if dt is None and rn in st.env:
                            dt = st.env[rn].ty
                        if isinstance(dt, T.Opt):
                            dt = dt.inner
                        if isinstance(dt, T.Ref):
                            recv_cls = dt.cls
                for k, c in S.CONTRACTS.items():
                    if '#' in k:
                        continue        # a second contract (variant) of a body: callers only ever see the plain contract
                    if container_like and recv_cls is None:
                        continue        # a method of a by-value container, not a call under contract
                    if recv_cls is not None and '.' in c.qual and not c.qual.endswith('.__init__'):
                        ccls = c.qual.split('.')[0]

                        def related(a, b):
                            if a == b:
                                return True
                            cm = S.CLASSES.get(a)
                            return bool(cm) and any(related(x, b) for x in cm.bases)
                        # the call itself is resolved to the contract of the receiver's static class or of one of its
                        # bases (resolve_contract walks UP); contracts of subclasses are different, more specific views
                        if not related(recv_cls, ccls):
                            continue
                    if c.qual.split('.')[-1] == nm or c.qual == nm or c.qual == (nm or '') + '.__init__':
                        for m in c.modifies:
                            if m.startswith('self.'):
                                cls = c.qual.split('.')[0]
                                is_ctor = c.qual.endswith('.__init__')
                                touch((self.ex.field_decl_class(cls, m[5:]), m[5:]), recv_self and not is_ctor)
                            else:
                                cls, fld = m.split('.', 1)
                                touch((self.ex.field_decl_class(cls, fld), fld), False)
                        if c.qual.endswith('.__init__') or c.alloc:
                            touch(('$alloc', 'next'), False)
        for extra in spec.get('modifies', []):
            cls, fld = extra.split('.', 1)
            touch((self.ex.field_decl_class(cls, fld), fld), False)
        if ('$alloc', 'next') in touched and ('$alloc', 'next') in st.heap:
            nxt = z3.Int('alloc!%d' % next(_fresh_counter))
            st.pc.append(nxt >= st.heap[('$alloc', 'next')])
            st.heap[('$alloc', 'next')] = nxt
        for key, via_self in touched.items():
            if key == ('$alloc', 'next'):
                continue
            cls, fld = key
            k2, fty = self.ex.heap_arr(st, cls, fld)
            oldarr = st.heap[k2]
            newarr = z3.Const('heap!%s.%s!%d' % (cls, fld, next(_fresh_counter)), z3.ArraySort(T.RefSort, fty.sort()))
            st.heap[k2] = newarr
            r = z3.Int('r!wf')
            wf = fty.wf(newarr[r])
            if wf:
                st.pc.append(z3.ForAll([r], z3.And(*wf), patterns=[newarr[r]]))
            if via_self and 'self' in st.env:
                # only the receiver object was written: every other object keeps its field
                st.pc.append(z3.ForAll([r], z3.Implies(r != st.env['self'].t, newarr[r] == oldarr[r]),
                                       patterns=[newarr[r]]))
            if ('$alloc', 'next') in st.heap:
                f = self.ex.ghost_default_fact(k2, newarr, st.heap[('$alloc', 'next')])
                if f is not None:
                    st.pc.append(f)

    def assert_invs(self, invs, st, kind, label):
        saved = self.ctx.mode
        self.ctx.mode = 'spec'
        try:
            for j, e in enumerate(invs):
                g = truthy(self.ex.ev(e, st))
                self.ex.oblige(st, g, kind, '%s.%d' % (label, j), text=ast.unparse(e))
        finally:
            self.ctx.mode = saved

    def assume_invs(self, invs, st):
        saved = self.ctx.mode
        self.ctx.mode = 'spec-assume'
        try:
            for e in invs:
                st.pc.append(truthy(self.ex.ev(e, st)))
        finally:
            self.ctx.mode = saved

    def assume_hints(self, hints, st):
        saved = self.ctx.mode
        self.ctx.mode = 'spec-assume'
        try:
            for e in hints:
                st.pc.append(truthy(self.ex.ev(e, st)))
        finally:
            self.ctx.mode = saved

    def st_While(self, s, st):
        if s.orelse:
            raise OutOfSubset('while-else')
        idx, spec = self.loop_spec(s, 'while')
        invs = parse_exprs(spec.get('invariant', []))
        hints = parse_exprs(spec.get('hints', []))
        dec = spec.get('decreases')
        label = 'loop%d' % idx
        names = assigned_names(s.body) | self.ghost_assigned(s.body) | callee_mutated(s.body)
        fields = written_fields(s.body)
        outer_ghost = {g: st.ghost.get(g) for g in ('_i', '_done', '_k', '_entry', '_pre')}
        pre_loop = st.copy()
        st.ghost['_entry'] = pre_loop
        self.assert_invs(invs, st, 'inv-entry', label)
        hst = st.copy()
        self.havoc_for_loop(hst, names, fields, s.body, spec)
        hst.ghost['_entry'] = pre_loop
        self.assume_invs(invs, hst)
        self.assume_hints(hints, hst)
        outs = []
        # evaluate the condition (with its safety obligations) in the arbitrary state
        cst = hst.copy()
        c = truthy(self.ex.ev(s.test, cst))
        bst = cst.copy()
        bst.pc.append(c)
        if self.ex.feasible(bst):
            self.ctx.reached.add('loop%d-body' % idx)
            d0 = None
            if dec:
                self.ctx.mode = 'spec'
                d0 = self.ex.ev(parse_exprs([dec])[0], bst)
                self.ctx.mode = 'code'
            for o in self.run_block(s.body, bst):
                if o.kind in ('next', 'continue'):
                    self.assume_hints(hints, o.st)
                    self.assert_invs(invs, o.st, 'inv-step', label)
                    if dec:
                        self.ctx.mode = 'spec'
                        d1 = self.ex.ev(parse_exprs([dec])[0], o.st)
                        self.ctx.mode = 'code'
                        self.ex.oblige(o.st, z3.And(d0.t >= 0, d1.t < d0.t), 'decreases', label)
                elif o.kind == 'break':
                    outs.append(Outcome(self.leave_loop(o.st, outer_ghost), 'next'))
                else:
                    outs.append(Outcome(self.leave_loop(o.st, outer_ghost), o.kind, o.val))
        est = cst
        est.pc.append(z3.Not(c))
        if self.ex.feasible(est):
            outs.append(Outcome(self.leave_loop(est, outer_ghost), 'next'))
        return outs


_SetTy = T.SetT
