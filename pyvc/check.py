"""./check <PROPERTY> [--tier quick|thorough] [--replay FILE]

Decides one property:
  1. deductive part (PyVC): every function / lemma under contract that carries the property is
     re-extracted from /repo's working tree and all its obligations are discharged by z3;
  2. counterexamples are replayed natively against the real code;
  3. bounded stand-in: the same contracts are evaluated natively on generated inputs, and the
     property's scenario driver (bounded/<id>.py) runs against the real engine;
  4. evidence is written to evidence/<id>.json.
Exit: 0 held | 1 VIOLATION | 2 UNDECIDED | 3 internal error.
"""
import argparse
import hashlib
import importlib
import json
import multiprocessing
import os
import subprocess
import sys
import time
import traceback

HERE = os.path.dirname(os.path.dirname(os.path.abspath(__file__)))
sys.path.insert(0, HERE)
os.chdir(HERE)

from pyvc import spec as S          # noqa: E402
from pyvc import props as P         # noqa: E402

VENV_PY = '/venv/bin/python'
SPEC_MODULES = ['specs.c_topology', 'specs.c_registry', 'specs.c_runfor', 'specs.c_dicts', 'specs.c_timeline', 'specs.c_emitter',
                'specs.c_engine', 'specs.c_store', 'specs.c_process', 'specs.c_apply', 'specs.c_embed', 'specs.c_emit', 'specs.c_emit2'] + \
    [m for m in os.environ.get('PYVC_EXTRA_SPECS', '').split(',') if m]


def load_specs():
    loaded = []
    for m in SPEC_MODULES:
        try:
            importlib.import_module(m)
            loaded.append(m)
        except ModuleNotFoundError as e:
            if m.split('.')[-1] not in str(e):
                raise
    return loaded


def _limit_memory():
    """a runaway solver query must end as `unknown`, not as an OOM kill of the whole check"""
    try:
        import resource
        cap = int(os.environ.get('PYVC_MEM_GB', '24')) << 30
        resource.setrlimit(resource.RLIMIT_AS, (cap, cap))
    except Exception:      # noqa
        pass
    try:
        import z3
        z3.set_param('memory_max_size', int(os.environ.get('PYVC_Z3_MEM_MB', '8000')))
    except Exception:      # noqa
        pass


def robust_map(fn, arglist, jobs, star=False):
    """pool.map that survives the death of a worker (OOM kill, solver crash): tasks of a broken pool are re-run one
    per process; a task whose own process dies yields {'status': 'error', 'reason': 'worker died'}"""
    from concurrent.futures import ProcessPoolExecutor
    from concurrent.futures.process import BrokenProcessPool
    ctx = multiprocessing.get_context('fork')
    call = (lambda a: fn(*a)) if star else fn
    results = [None] * len(arglist)
    todo = list(range(len(arglist)))
    try:
        with ProcessPoolExecutor(max_workers=max(1, min(jobs, len(arglist))), mp_context=ctx) as ex:
            futs = {i: (ex.submit(fn, *arglist[i]) if star else ex.submit(fn, arglist[i])) for i in todo}
            for i, f in futs.items():
                try:
                    results[i] = f.result()
                except BrokenProcessPool:
                    raise
                except Exception as e:      # noqa
                    results[i] = {'status': 'error', 'reason': 'task raised %s: %s' % (type(e).__name__, e)}
        return results
    except BrokenProcessPool:
        pass
    for i in todo:
        if results[i] is not None:
            continue
        try:
            with ProcessPoolExecutor(max_workers=1, mp_context=ctx) as ex:
                f = ex.submit(fn, *arglist[i]) if star else ex.submit(fn, arglist[i])
                results[i] = f.result()
        except BrokenProcessPool:
            results[i] = {'status': 'error', 'reason': 'worker died (killed or crashed) while running %r' % (arglist[i],)}
        except Exception as e:      # noqa
            results[i] = {'status': 'error', 'reason': 'task raised %s: %s' % (type(e).__name__, e)}
    return results


def _task(args):
    kind, key, inst_name, timeout_ms, want_smt = args
    _limit_memory()
    from pyvc import driver as D
    load_specs()
    try:
        if kind == 'lemma':
            r = D.verify_lemma(S.LEMMAS[key], timeout_ms=timeout_ms)
        else:
            con = S.CONTRACTS[key]
            inst = None
            if inst_name:
                inst = [i for i in con.instances if i['name'] == inst_name][0]
            r = D.verify_contract(con, inst, timeout_ms=timeout_ms, want_smt=want_smt)
        return {'kind': kind, 'key': key, 'instance': inst_name, 'status': r.status, 'reason': r.reason,
                'obligations': r.obligations, 'sha': r.sha, 'path': r.path, 'line': r.lineno,
                'assumptions': r.assumptions, 'time_s': round(r.time, 3), 'cover': r.cover, 'canary': r.canary,
                'infeasible_paths': r.infeasible}
    except Exception as e:   # pragma: no cover
        return {'kind': kind, 'key': key, 'instance': inst_name, 'status': 'error',
                'reason': 'crash: %s\n%s' % (e, traceback.format_exc()[-1200:]), 'obligations': [], 'sha': '',
                'path': '', 'line': 0, 'assumptions': [], 'time_s': 0, 'cover': None, 'canary': None,
                'infeasible_paths': 0}


def select(prop):
    """Contracts and lemmas that carry the property, plus the (untrusted) callee contracts they rely on."""
    tasks = []
    for key, con in S.CONTRACTS.items():
        if con.trusted:
            continue
        if prop in con.props:
            for inst in (con.instances or [None]):
                tasks.append(('function', key, inst['name'] if inst else None))
    for name, lm in S.LEMMAS.items():
        if prop in lm.props:
            tasks.append(('lemma', name, None))
    return tasks


def run_native(args, timeout=600):
    env = dict(os.environ)
    # VERIF_REPO: exercise a scratch copy of the repository (a seeded change in its own worktree) instead of /repo
    env['PYTHONPATH'] = (os.environ['VERIF_REPO'] + os.pathsep + HERE) if os.environ.get('VERIF_REPO') else HERE
    env.setdefault('PYTHONHASHSEED', '0')
    try:
        p = subprocess.run([VENV_PY] + args, cwd=HERE, env=env, capture_output=True, text=True, timeout=timeout)
    except subprocess.TimeoutExpired:
        return {'status': 'error', 'reason': 'native run timed out: %s' % ' '.join(args)}
    out = p.stdout.strip().splitlines()
    for line in reversed(out):
        if line.startswith('{'):
            try:
                return json.loads(line)
            except json.JSONDecodeError:
                continue
    return {'status': 'error', 'reason': 'no JSON from native run (rc=%s): %s' % (p.returncode, (p.stderr or p.stdout)[-800:])}


def _stem(name):
    import re
    return re.sub(r'(#\d+|@L\d+)+$', '', name)


def load_baseline():
    path = os.path.join(HERE, 'baseline', 'obligations.json')
    if os.path.exists(path):
        return json.load(open(path))
    return {}


def load_known():
    path = os.path.join(HERE, 'known_findings.json')
    if os.path.exists(path):
        return json.load(open(path))
    return {'findings': []}


def main():
    ap = argparse.ArgumentParser()
    ap.add_argument('prop')
    ap.add_argument('--tier', default=os.environ.get('VERIF_TIER', 'quick'))
    ap.add_argument('--replay', default=None)
    ap.add_argument('--rebaseline', action='store_true')
    ap.add_argument('--jobs', type=int, default=14)
    a = ap.parse_args()
    prop = a.prop
    tier = a.tier if a.tier in ('quick', 'thorough') else 'quick'
    seed = int(os.environ.get('VERIF_SEED', '0') or 0)
    t0 = time.time()
    if a.replay:
        return replay_file(prop, a.replay)
    try:
        rc = run_check(prop, tier, seed, a, t0)
    except Exception as e:
        print('INTERNAL-ERROR property=%s %s' % (prop, e))
        traceback.print_exc()
        rc = 3
    return rc


def replay_file(prop, path):
    data = json.load(open(path))
    if data.get('kind') == 'scenario':
        info = P.PROPS[prop]
        drivers = list(info.get('drivers') or [(info.get('driver'), info.get('driver_args', []))])
        mod = data.get('driver') or drivers[0][0]
        args = []
        for m, ar in drivers:
            if m == mod:
                args = list(ar)
        out = run_native(['-m', mod] + args + ['--replay', path])
    else:
        args = ['-m', 'bounded.native', '--contract', data['contract'], '--replay', path]
        if data.get('instance'):
            args += ['--instance', data['instance']]
        out = run_native(args)
    print(json.dumps(out)[:2000])
    if out.get('status') == 'reproduced' or out.get('status') == 'violated':
        print('VIOLATION property=%s replay=%s' % (prop, path))
        return 1
    if out.get('status') == 'error':
        return 3
    return 0


def run_check(prop, tier, seed, a, t0):
    load_specs()
    os.environ.setdefault('PYVC_JOBS', '12')
    if tier == 'thorough':
        os.environ.setdefault('PYVC_BACKEND2', '1')       # every discharged query is re-checked by z3 4.8.12
    info = P.PROPS[prop]
    timeout_ms = 30000 if tier == 'quick' else 120000
    tasks = select(prop)
    results = []
    if tasks:
        results = robust_map(_task, [(k, key, inst, timeout_ms, False) for (k, key, inst) in tasks], a.jobs)
        for (k, key, inst), r in zip(tasks, results):
            if 'key' not in r:          # the worker died: a complete record with status error
                r.update({'kind': k, 'key': key, 'instance': inst, 'status': 'error', 'obligations': [], 'sha': '', 'path': '',
                          'line': 0, 'assumptions': [], 'time_s': 0, 'cover': None, 'canary': None, 'infeasible_paths': 0})
    baseline = load_baseline()
    known = load_known()
    violations = []      # (obligation name, replay path, suffix)
    undecided = []
    errors = []
    n_obl = n_dis = 0
    solver_time = 0.0
    functions = []
    assumptions = set()
    ob_records = []
    b2 = {}
    replay_dir = os.path.join(HERE, 'out', 'replays', prop)
    os.makedirs(replay_dir, exist_ok=True)
    for r in results:
        label = r['key'] + (('[%s]' % r['instance']) if r['instance'] else '')
        functions.append({'function': label, 'kind': r['kind'], 'source': r['path'], 'line': r['line'],
                          'sha256_16': r['sha'], 'status': r['status'], 'obligations': len(r['obligations']),
                          'time_s': r['time_s'], 'cover': r['cover'], 'canary': r['canary'],
                          'infeasible_paths_pruned': r['infeasible_paths']})
        assumptions.update(r['assumptions'])
        if r['status'] == 'error':
            errors.append('%s: %s' % (label, r['reason']))
            continue
        if r['status'] == 'undecided' and not r['obligations']:
            # out of subset / contract drift for a function that used to verify
            base = baseline.get(label)
            if base and base.get('sha') != r['sha']:
                # the code changed and the verifier can no longer even translate it -> undecided, never violation
                undecided.append('%s: %s' % (label, r['reason']))
            else:
                undecided.append('%s: %s' % (label, r['reason']))
            continue
        for o in r['obligations']:
            n_obl += 1
            solver_time += o['time_s']
            rec = {'name': o['name'], 'verdict': o['verdict'], 'time_s': o['time_s'], 'line': o['line'],
                   'backend': o['backend'], 'function': label}
            if o.get('backend2'):
                rec['backend2'] = o['backend2']
                b2[o['backend2']['verdict']] = b2.get(o['backend2']['verdict'], 0) + 1
            ob_records.append(rec)
            if o['verdict'] == 'discharged':
                n_dis += 1
                continue
            # failed or unknown: try to obtain a failing input on the real code
            rp = os.path.join(replay_dir, o['name'].replace('/', '_') + '.json')
            payload = {'property': prop, 'kind': 'contract', 'obligation': o['name'], 'contract': r['key'],
                       'instance': r['instance'], 'clause': o.get('text'), 'line': o['line'], 'verdict': o['verdict'],
                       'inputs': o.get('counterexample'), 'solver_output': o.get('solver_output', o.get('reason', '')),
                       'source': r['path'], 'sha256_16': r['sha']}
            reproduced = False
            if r['kind'] == 'function' and o.get('counterexample') and not any(
                    isinstance(v, dict) and '$undecodable' in v for v in o['counterexample'].values()):
                json.dump(payload, open(rp, 'w'), indent=1, default=repr)
                args = ['-m', 'bounded.native', '--contract', r['key'], '--replay', rp]
                if r['instance']:
                    args += ['--instance', r['instance']]
                out = run_native(args)
                payload['native_replay'] = out
                reproduced = out.get('status') == 'reproduced'
            if not reproduced and r['kind'] == 'function':
                args = ['-m', 'bounded.native', '--contract', r['key'], '--search', '4000' if tier == 'quick' else '40000',
                        '--seed', str(seed), '--tier', tier]
                if r['instance']:
                    args += ['--instance', r['instance']]
                out = run_native(args)
                payload['native_search'] = {k: v for k, v in out.items() if k != 'samples'}
                if out.get('status') == 'violated':
                    payload['inputs'] = out['failures'][0]['inputs']
                    payload['native_replay'] = {'status': 'reproduced', 'clause': out['failures'][0]['clause'],
                                                'detail': out['failures'][0]['detail']}
                    reproduced = True
            json.dump(payload, open(rp, 'w'), indent=1, default=repr)
            relp = os.path.relpath(rp, HERE)
            if reproduced:
                violations.append((o['name'], relp, ''))
            elif o['verdict'] == 'failed':
                violations.append((o['name'], relp, ' no-failing-input-found'))
            else:
                base = baseline.get(label, {})
                # the same clause on another path / line of the edited body carries the same name up to its `#path` and
                # `@Lline` suffixes: compare the stems
                stems = {_stem(n) for n in base.get('discharged', [])}
                if _stem(o['name']) in stems and base.get('sha') != r['sha']:
                    # discharged on the baseline tree, the function's source changed, and now undischargeable
                    violations.append((o['name'], relp, ' no-failing-input-found'))
                else:
                    undecided.append('%s (%s)' % (o['name'], o.get('reason', 'unknown')))
    # ---------------- bounded stand-in: native contract monitors ---------------------------------
    bounded = {'contracts': [], 'evaluations': 0, 'distinct_nontrivial': 0, 'samples': []}
    n_search = info.get('native_n', {}).get(tier, 1500 if tier == 'quick' else 30000)
    native_jobs = []
    for (k, key, inst) in tasks:
        if k != 'function':
            continue
        con = S.CONTRACTS[key]
        if not con.pure:
            continue
        args = ['-m', 'bounded.native', '--contract', key, '--search', str(n_search), '--seed', str(seed), '--tier', tier]
        if inst:
            args += ['--instance', inst]
        native_jobs.append((key, inst, args))
    if native_jobs:
        outs = robust_map(run_native, [j[2] for j in native_jobs], a.jobs)
        for (key, inst, _), out in zip(native_jobs, outs):
            label = key + (('[%s]' % inst) if inst else '')
            bounded['contracts'].append({'function': label, 'status': out.get('status'),
                                         'evaluations': out.get('evaluations', 0),
                                         'satisfying_pre': out.get('satisfying_pre', 0),
                                         'distinct_nontrivial': out.get('distinct_nontrivial', 0)})
            bounded['evaluations'] += out.get('evaluations', 0)
            bounded['distinct_nontrivial'] += out.get('distinct_nontrivial', 0)
            for smp in out.get('samples', [])[:1]:
                bounded['samples'].append({'function': label, 'inputs': smp})
            if out.get('status') == 'violated':
                rp = os.path.join(replay_dir, 'native.' + label.replace(':', '_').replace('/', '_') + '.json')
                f = out['failures'][0]
                json.dump({'property': prop, 'kind': 'contract', 'obligation': 'bounded.' + label, 'contract': key,
                           'instance': inst, 'clause': f['clause'], 'inputs': f['inputs'], 'detail': f['detail']},
                          open(rp, 'w'), indent=1, default=repr)
                violations.append(('bounded.' + label, os.path.relpath(rp, HERE), ''))
            elif out.get('status') == 'error':
                errors.append('native %s: %s' % (label, out.get('reason')))
            elif out.get('status') == 'ok' and out.get('satisfying_pre', 0) == 0:
                errors.append('native %s: no generated input satisfied the precondition (vacuous monitor)' % label)
    # ---------------- bounded stand-in: scenario driver ---------------------------------------------
    scenario = None
    drivers = list(info.get('drivers') or ([(info['driver'], info.get('driver_args', []))] if info.get('driver') else []))
    if drivers:
        jobs = [['-m', mod] + list(args) + ['--tier', tier, '--seed', str(seed), '--out', replay_dir] for mod, args in drivers]
        tmo = info.get('driver_timeout', {}).get(tier, 1500 if tier == 'quick' else 7200)
        outs = robust_map(run_native, [(j, tmo) for j in jobs], a.jobs, star=True)
        scenario = {'evaluations': 0, 'distinct_nontrivial': 0, 'samples': [], 'drivers': []}
        for (mod, args), out in zip(drivers, outs):
            scenario['drivers'].append({'driver': mod + ' ' + ' '.join(args), 'status': out.get('status'),
                                        'evaluations': out.get('evaluations', 0),
                                        'distinct_nontrivial': out.get('distinct_nontrivial', 0),
                                        'rule': out.get('rule'), 'bound': out.get('bound'),
                                        'known_findings_hit': out.get('known_findings_hit')})
            scenario['evaluations'] += out.get('evaluations', 0)
            scenario['distinct_nontrivial'] += out.get('distinct_nontrivial', 0)
            scenario['samples'] += out.get('samples', [])[:2]
            if out.get('status') == 'error':
                errors.append('scenario driver %s: %s' % (mod, out.get('reason')))
            for f in out.get('failures', []):
                violations.append((f['id'], f['replay'], ''))
            for k, cnt in (out.get('known_findings_hit') or {}).items():
                if cnt:
                    violations.append(('known:' + k, '', ''))
    # ---------------- witnesses of recorded findings --------------------------------------------------------
    witness_results = []
    wjobs = [kf for kf in known.get('findings', []) if kf['property'] == prop and kf.get('witness')]
    if wjobs:
        def _run_w(kf):
            env = dict(os.environ); env['PYTHONPATH'] = (os.environ['VERIF_REPO'] + os.pathsep + HERE) if os.environ.get('VERIF_REPO') else HERE
            try:
                pr = subprocess.run([VENV_PY, kf['witness']], cwd=HERE, env=env, capture_output=True, text=True, timeout=300)
                return pr.returncode, (pr.stdout + pr.stderr)[-600:]
            except subprocess.TimeoutExpired:
                return 124, 'timeout'
        from concurrent.futures import ThreadPoolExecutor
        with ThreadPoolExecutor(max_workers=8) as tp:
            wres = list(tp.map(_run_w, wjobs))
        for kf, (rc, out) in zip(wjobs, wres):
            witness_results.append({'id': kf['id'], 'status': kf['status'], 'witness': kf['witness'], 'exit': rc})
            if kf['status'] == 'fixed' and rc != 0:
                violations.append(('regression of repaired defect %s (%s): witness fails again' % (kf['id'], kf['what'][:80]),
                                   kf['witness'], ''))
            if kf['status'] == 'known' and rc == 1:
                violations.append(('known:' + kf['id'], kf['witness'], ''))
    # ---------------- known findings ------------------------------------------------------------------
    kf_lines = []
    reported = []
    for name, rp, suffix in violations:
        hit = None
        for kf in known.get('findings', []):
            if kf.get('status') == 'known' and kf['property'] == prop and kf['match'] in name:
                hit = kf
        if hit:
            kf_lines.append('KNOWN-FINDING: property=%s %s' % (prop, hit['what']))
        else:
            reported.append((name, rp, suffix))
    kf_lines = sorted(set(kf_lines))
    # ---------------- evidence ---------------------------------------------------------------------------
    wall = time.time() - t0
    level = info['level']
    scen_eval = (scenario or {}).get('evaluations', 0)
    scen_dn = (scenario or {}).get('distinct_nontrivial', 0)
    cov = {
        'obligations': n_obl,
        'discharged': n_dis,
        'checker_cmd': './check %s --tier %s   (PyVC: ast -> VC -> z3 %s via python3-vt)' % (prop, tier, _z3ver()),
        'trusted_base': sorted(assumptions) + list(info.get('trusted', [])),
        'explanation': info['explanation'],
        'functions_under_contract': functions,
        'obligation_list': ob_records[:400],
        'solver_time_s': round(solver_time, 3),
        'second_backend': {'solver': '/usr/bin/z3 4.8.12 via SMT-LIB2 (thorough tier only)', 'verdicts': b2},
        'extraction_drops': 'docstrings; type annotations and cast(); calls of log.*/logging.*/warnings.*/print/pp/pf/'
                            'print_progress_bar/_print_summary',
        'evaluations': bounded['evaluations'] + scen_eval,
        'distinct_nontrivial': bounded['distinct_nontrivial'] + scen_dn,
        'rule': info.get('rule', 'native contract monitors: randomly generated inputs (seeded) that satisfy the '
                                 'precondition; distinct = distinct input tuples') +
                ' | BOUNDED part only; never counted as proved',
        'samples': (bounded['samples'][:3] + (scenario or {}).get('samples', [])[:3]) or
                   [{'obligation': r} for r in ob_records[:3]],
        'bounded': {'native_contract_monitors': bounded['contracts'],
                    'scenario_drivers': (scenario or {}).get('drivers', []),
                    'label': 'bounded stand-in, never counted as proved'},
        'witnesses_of_recorded_findings': witness_results,
        'undecided': undecided,
    }
    ev = {'property_id': prop, 'tier': tier, 'seed': seed, 'level': level, 'coverage': cov,
          'assumptions': sorted(assumptions) + list(info.get('assumptions', [])),
          'wall_s': round(wall, 2), 'violations': len(reported)}
    # seeded-change experiments (tools/try_seed.sh) write their evidence elsewhere, so that the committed evidence
    # always describes /repo itself
    evdir = os.path.join(HERE, os.environ.get('VERIF_EVIDENCE_DIR', 'evidence'))
    os.makedirs(evdir, exist_ok=True)
    json.dump(ev, open(os.path.join(evdir, prop + '.json'), 'w'), indent=1, default=repr)
    if a.rebaseline:
        base = load_baseline()
        for r in results:
            label = r['key'] + (('[%s]' % r['instance']) if r['instance'] else '')
            base[label] = {'sha': r['sha'],
                           'discharged': [o['name'] for o in r['obligations'] if o['verdict'] == 'discharged']}
        os.makedirs(os.path.join(HERE, 'baseline'), exist_ok=True)
        json.dump(base, open(os.path.join(HERE, 'baseline', 'obligations.json'), 'w'), indent=1, sort_keys=True)
    # ---------------- verdict -----------------------------------------------------------------------------------
    print('property %s tier %s: %d obligations, %d discharged, %d functions/lemmas, bounded evaluations %d, %.1fs'
          % (prop, tier, n_obl, n_dis, len(results), cov['evaluations'], wall))
    for line in kf_lines:
        print(line)
    if errors:
        for e in errors:
            print('ERROR property=%s %s' % (prop, e[:600]))
    if reported:
        for name, rp, suffix in reported:
            print('failed obligation: %s' % name)
            print('VIOLATION property=%s replay=%s%s' % (prop, rp, suffix))
        return 1
    if errors:
        return 3
    if tasks and n_obl == 0:
        print('ERROR property=%s zero obligations generated' % prop)
        return 3
    if undecided:
        for u in undecided:
            print('UNDECIDED property=%s obligation=%s' % (prop, u[:500]))
        return 2
    return 0


def _z3ver():
    try:
        import z3
        return z3.get_version_string()
    except Exception:
        return '?'


if __name__ == '__main__':
    sys.exit(main())
