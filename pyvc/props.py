"""Per-property configuration of the checks (levels, drivers, explanations)."""

FLOATS = 'Python floats are treated as mathematical reals in every obligation that mentions time or float values'
OWN = ('value semantics for dicts/lists (ownership-tree assumption: a nested container is reachable from one '
       'parent slot) except where sharing is stated explicitly')

PROPS = {}


def prop(pid, level, explanation, driver=None, trusted=(), assumptions=(), rule=None, native_n=None,
         driver_timeout=None, driver_args=(), drivers=None):
    PROPS[pid] = dict(drivers=drivers, level=level, explanation=explanation, driver=driver, trusted=list(trusted),
                      assumptions=list(assumptions), native_n=native_n or {}, driver_timeout=driver_timeout or {},
                      driver_args=list(driver_args))
    if rule:
        PROPS[pid]['rule'] = rule


prop('C17', 'other',
     'Path algebra. PROVED (unbounded, all trees/paths): normalize_path == norm; get_in == tget; delete_in == tdel; '
     'assoc_path == tset; update_in == tupd∘f; starts_with == prefix; lemmas get_assoc (get_in reads what assoc_path '
     'wrote), delete_get (delete_in removes the entry). BOUNDED: the same contracts evaluated natively on generated '
     'inputs (CPython cross-check of the encoding), and the Store navigation laws (path_to / path_for / get_path vs '
     'lexical normal form) on real Store trees, which are outside the translated subset.',
     driver='bounded.c17', assumptions=[OWN])

SCHED_RULE = ('seeded random schedules + a systematic family (slow always-on process next to a fast conditional one under '
              'short caller-managed run_for calls, enumerated completely); non-trivial = >= 2 distinct timesteps or a '
              'quiet/deferred invocation actually occurred (measured on the trace); distinct by scenario description')

prop('C01', 'other',
     'PROVED on the real source of Engine.run_for (463 obligations, all loops cut at invariants, any number of processes visited in any order, any sequence of timestep/condition answers, any call sequence -- the invariant is the pre- and postcondition): ghost ledger on Defer objects: a pending update is never overwritten (assert before the store into front), every token handed to _send_updates is issued, unconsumed and due exactly now, _send_updates consumes each collected token exactly once (Defer.get precondition) and no other, consumed tokens satisfy applied_at == due, no pending update crosses a call boundary. ASSUMED: behavioural contracts of user processes and of Defer.get / Store.apply_update (trusted, bounded-checked), floats as reals, no global_time_precision (that instance is bounded only), interval > 0, and the region of the known finding F-C03-shrink is excluded by an explicit environment assumption. BOUNDED: the observable form (accumulating variables at every emitted time == sum of updates whose interval ended) and the token discipline on the real engine.',
     driver='bounded.sched', driver_args=['--prop', 'C01'], rule=SCHED_RULE, assumptions=[FLOATS])
prop('C02', 'other',
     'PROVED on the real source of Engine.run_for (463 obligations, all loops cut at invariants, any number of processes visited in any order, any sequence of timestep/condition answers, any call sequence -- the invariant is the pre- and postcondition): at the only call site of _process_update the timestep handed over equals future - process_time (ghost assert; under forced truncation it is end_time - process_time), tokens carry g_dt == g_due - g_start, and after run_for(force_complete=True) every front is at global_time with nothing pending, which discharges the two run-time asserts of _check_complete as obligations. BOUNDED: clock-like variables equal elapsed time on the real engine, contiguity of intervals.',
     driver='bounded.sched', driver_args=['--prop', 'C02'], rule=SCHED_RULE, assumptions=[FLOATS])
prop('C03', 'other',
     'PROVED on the real source of Engine.run_for (463 obligations, all loops cut at invariants, any number of processes visited in any order, any sequence of timestep/condition answers, any call sequence -- the invariant is the pre- and postcondition): every assignment to global_time keeps old <= new <= end_time, the call returns with global_time == start + interval exactly, full_step is strictly positive whenever finite (strict progress of every applying iteration), emit times are strictly increasing for emit_step 1. NOT PROVED (bounded only): termination (watchdog incl. all-quiet and empty composites), the decimal-grid clause under global_time_precision (float rounding is outside the real-number encoding).',
     driver='bounded.sched', driver_args=['--prop', 'C03'], rule=SCHED_RULE, assumptions=[FLOATS])
prop('C12', 'other',
     'PROVED: in run_for the ghost emit log only grows by the current global_time, right after _send_updates (which ends with the step phase), with strictly increasing times for emit_step 1 and non-decreasing times otherwise. BOUNDED: one configuration record first, a row after construction and after every batch, rows equal to the projection of the hierarchy on the emit flags (Store.emit_data and the emitter are outside the translated subset).',
     driver='bounded.sched', driver_args=['--prop', 'C12'], rule=SCHED_RULE)

prop('C14', 'exploration',
     'BOUNDED ONLY: the substance of serialization lives in orjson and pint (external, no contract within reach can '
     'express a round trip through them). Contracts evaluated on the real serialize_value/deserialize_value over '
     'generated value trees: output is plain JSON data, serialize is idempotent on its output, deserialize(serialize(x)) '
     'equals x modulo what JSON cannot represent (tuples/sets/arrays come back as lists), unsupported values and '
     'non-string keys raise TypeError.',
     driver='bounded.c14', rule='seeded random value trees of depth <= 3/4 over the value pool of the statement; '
     'non-trivial = container values; distinct by repr',
     trusted=['orjson', 'pint', 'numpy'])
prop('C18', 'exploration',
     'BOUNDED part: timeseries / path-timeseries / query laws on generated histories (falsy values, changing shapes). '
     'The deductive part (RAMEmitter.get_data via get_in/paths_to_dict contracts) is listed when built.',
     driver='bounded.c18')
prop('C19', 'exploration',
     'BOUNDED part: all permutations of event multisets x timesteps on the real engine against reference semantics.',
     driver='bounded.c19')

TOPO_RULE = ('seeded random (ports schema, topology, placement, partial initial state) from the shape families plain, "..", '
             '_path split/rename, two ports on one store, leaf port, nested port, glob, glob with own _path, nested glob; '
             'oracle addr = independent reading of the topology documentation')
prop('C06', 'exploration',
     'BOUNDED so far: on the real engine, the value read for every declared variable is the value of the node addr(q), '
     'after one update that node holds value read + all increments wired to it, and no other node changed. The write-side '
     'helpers (normalize_path, assoc_path, update_in, deep_merge*) are proved under C17 / listed when their contracts land.',
     drivers=[('bounded.topo', ['--prop', 'C06'])], rule=TOPO_RULE)
prop('C07', 'exploration',
     'BOUNDED ONLY (the view builder is schema-driven Store code outside the translated subset): states handed to '
     'next_update have exactly the declared shape (no undeclared entries, glob = one entry per current child), from the '
     'current hierarchy after every structural history; a step depending on a step that changed the structure sees it in '
     'the same phase.',
     drivers=[('bounded.topo', ['--prop', 'C07']), ('bounded.struct', ['--prop', 'C07']), ('bounded.steps', ['--prop', 'C07'])],
     rule=TOPO_RULE)
prop('C15', 'exploration',
     'BOUNDED ONLY (Store._apply_config / generate are schema-driven code outside the translated subset): after '
     'construction every declared variable exists at addr(q) holding the initial value if given else the declared default; '
     'glob children named in the initial state get the sub-schema defaults; nested globs with explicitly wired inner children.',
     drivers=[('bounded.topo', ['--prop', 'C15'])], rule=TOPO_RULE)
STRUCT_RULE = ('seeded random structural histories (<=3/4 ticks, 1-2 operations per tick from _add,_delete,_generate,_divide,'
               '_move plus value updates) against a reference model of the value tree, node identities, live-set bookkeeping')
prop('C09', 'exploration',
     'BOUNDED ONLY so far: after every batch the value tree equals the reference model of the documented meaning of the '
     'operations (double entry), all nodes not named by an operation keep identity and value, division conserves.',
     drivers=[('bounded.struct', ['--prop', 'C09'])], rule=STRUCT_RULE)
prop('C10', 'exploration',
     'BOUNDED so far: after every batch the engine\'s process/step paths equal the processes/steps found in the Store '
     'tree, the published processes/steps/flow/topology equal state.get_*(), every live step runs exactly once per '
     'phase, nothing dead is invoked, every live process keeps being invoked.',
     drivers=[('bounded.struct', ['--prop', 'C10'])], rule=STRUCT_RULE)
prop('C05', 'exploration',
     'BOUNDED so far: random flow DAGs (+derivers, nesting): each step exactly once per phase with timestep 0, derivers '
     'first in declaration order, dependencies before dependants, a dependant sees its dependencies\' outputs of this phase '
     '(also structural ones through a glob port), steps of one layer see the same state, phases only after batches.',
     drivers=[('bounded.steps', ['--prop', 'C05'])])
prop('C04', 'exploration',
     'BOUNDED so far: processes invoked at one instant are shown identical states; steps of one layer see one committed '
     'state (incl. structural updates of earlier layers); the emitted trajectory is identical under permutations of the '
     'listing order of processes / steps / flow / topology entries.',
     drivers=[('bounded.steps', ['--prop', 'C04'])])

prop('C08', 'other',
     'PROVED (all inputs): update_set, update_null, update_accumulate (int / float / mixed), update_nonnegative_accumulate '
     '(scalar branch) satisfy the updater laws of the statement. BOUNDED: the same laws through the real '
     'Store.apply_update (default updater, per-update _updater by name or function, _multi_update batches, merge, '
     'dict_value, user functions, numpy arrays, quantities and unit normalisation, unmentioned variables untouched, update '
     'object not modified).',
     drivers=[('bounded.c08', [])], assumptions=[FLOATS])
prop('C11', 'other',
     'PROVED (all inputs): divide_set, divide_set_value, divide_zero, divide_null, assert_no_divide, divide_binomial '
     '(conservation for whatever numpy returns) and divide_split: for every integer (any size, any sign) the daughters sum '
     'to the mother and differ by at most 1; floats are halved. BOUNDED: Store.divide end to end on the real engine (all '
     'registered dividers incl. split_dict, dividers with config, branch-level dividers, explicit daughter states, '
     'independence of daughters under in-place updates, two generations).',
     drivers=[('bounded.c11', []), ('bounded.struct', ['--prop', 'C11'])], assumptions=[FLOATS])
prop('C13', 'exploration',
     'BOUNDED ONLY so far (pipes and OS processes are external): serial == parallel for parallel subsets of schedule '
     'scenarios; deletion of compartments with idle / due / in-flight parallel processes; end() once, twice, never; '
     'profiling with a large profile; no live worker afterwards.',
     drivers=[('bounded.c13', [])], driver_timeout={'quick': 900, 'thorough': 7200},
     trusted=['multiprocessing pipes are FIFO and faithful; join returns once the child left its loop'])
prop('C16', 'exploration',
     'BOUNDED so far: embedding at a path == at the root; three engine entry points give one trajectory; merge sequences '
     'equal the model union; merged-in composites and argument dictionaries are never changed, then or later.',
     drivers=[('bounded.c16', [])])
