"""Per-property configuration of the checks (levels, drivers, explanations)."""

FLOATS = 'Python floats are treated as mathematical reals in every obligation that mentions time or float values'
OWN = ('value semantics for dicts/lists (ownership-tree assumption: a nested container is reachable from one '
       'parent slot) except where sharing is stated explicitly')

PROPS = {}


def prop(pid, level, explanation, driver=None, trusted=(), assumptions=(), rule=None, native_n=None,
         driver_timeout=None, driver_args=()):
    PROPS[pid] = dict(level=level, explanation=explanation, driver=driver, trusted=list(trusted),
                      assumptions=list(assumptions), native_n=native_n or {}, driver_timeout=driver_timeout or {},
                      driver_args=list(driver_args))
    if rule:
        PROPS[pid]['rule'] = rule


prop('C17', 'other',
     'Path algebra. PROVED (unbounded, all trees/paths): normalize_path == norm; get_in == tget; delete_in == tdel; '
     'assoc_path == tset; update_in == tupd∘f; starts_with == prefix; lemmas get_assoc (get_in reads what assoc_path '
     'wrote), delete_get (delete_in removes the entry). BOUNDED: the same contracts evaluated natively on generated '
     'inputs (CPython cross-check of the encoding), and the Store navigation laws (path_to / path_for / get_path vs '
     'lexical normal form) on real Store trees, which are outside the translated subset.',
     driver='bounded.c17', assumptions=[OWN])

SCHED_RULE = ('seeded random schedules + a systematic family (slow always-on process next to a fast conditional one under '
              'short caller-managed run_for calls, enumerated completely); non-trivial = >= 2 distinct timesteps or a '
              'quiet/deferred invocation actually occurred (measured on the trace); distinct by scenario description')

prop('C01', 'exploration',
     'BOUNDED ONLY so far (the deductive proof of Engine.run_for is under construction): contract monitors on the real '
     'engine. Every token issued by _process_update is followed through Defer.get: applied exactly once, at '
     'start+timestep, in order; every amount returned by a user process reaches the (user-registered, logging) updater '
     'exactly once; accumulating variables at every emitted time equal the sum of the updates whose interval ended.',
     driver='bounded.sched', driver_args=['--prop', 'C01'], rule=SCHED_RULE, assumptions=[FLOATS])
prop('C02', 'exploration',
     'BOUNDED ONLY so far: on the real engine the timestep handed to next_update equals application time minus the '
     'front time at invocation; a clock-like variable equals the elapsed time after forced completion; fronts are at '
     'global time with nothing pending after update().',
     driver='bounded.sched', driver_args=['--prop', 'C02'], rule=SCHED_RULE, assumptions=[FLOATS])
prop('C03', 'exploration',
     'BOUNDED ONLY so far: clock monotone on every assignment, never past the end, run_for returns at start+interval, '
     'watchdog for termination (all-quiet and empty composites included), emit times strictly increasing, and with '
     'global_time_precision every observable event time on the grid.',
     driver='bounded.sched', driver_args=['--prop', 'C03'], rule=SCHED_RULE, assumptions=[FLOATS])
prop('C12', 'exploration',
     'BOUNDED ONLY so far: one configuration record first, one row after construction and after every batch+steps, '
     'rows equal to the projection of the hierarchy on the emit flags.',
     driver='bounded.sched', driver_args=['--prop', 'C12'], rule=SCHED_RULE)

prop('C14', 'exploration',
     'BOUNDED ONLY: the substance of serialization lives in orjson and pint (external, no contract within reach can '
     'express a round trip through them). Contracts evaluated on the real serialize_value/deserialize_value over '
     'generated value trees: output is plain JSON data, serialize is idempotent on its output, deserialize(serialize(x)) '
     'equals x modulo what JSON cannot represent (tuples/sets/arrays come back as lists), unsupported values and '
     'non-string keys raise TypeError.',
     driver='bounded.c14', rule='seeded random value trees of depth <= 3/4 over the value pool of the statement; '
     'non-trivial = container values; distinct by repr',
     trusted=['orjson', 'pint', 'numpy'])
prop('C18', 'exploration',
     'BOUNDED part: timeseries / path-timeseries / query laws on generated histories (falsy values, changing shapes). '
     'The deductive part (RAMEmitter.get_data via get_in/paths_to_dict contracts) is listed when built.',
     driver='bounded.c18')
prop('C19', 'exploration',
     'BOUNDED part: all permutations of event multisets x timesteps on the real engine against reference semantics.',
     driver='bounded.c19')
