"""Per-property configuration of the checks (levels, drivers, explanations)."""

FLOATS = 'Python floats are treated as mathematical reals in every obligation that mentions time or float values'
OWN = ('value semantics for dicts/lists (ownership-tree assumption: a nested container is reachable from one '
       'parent slot) except where sharing is stated explicitly')

PROPS = {}


def prop(pid, level, explanation, driver=None, trusted=(), assumptions=(), rule=None, native_n=None,
         driver_timeout=None):
    PROPS[pid] = dict(level=level, explanation=explanation, driver=driver, trusted=list(trusted),
                      assumptions=list(assumptions), native_n=native_n or {}, driver_timeout=driver_timeout or {})
    if rule:
        PROPS[pid]['rule'] = rule


prop('C17', 'other',
     'Path algebra. PROVED (unbounded, all trees/paths): normalize_path == norm; get_in == tget; delete_in == tdel; '
     'assoc_path == tset; update_in == tupd∘f; starts_with == prefix; lemmas get_assoc (get_in reads what assoc_path '
     'wrote), delete_get (delete_in removes the entry). BOUNDED: the same contracts evaluated natively on generated '
     'inputs (CPython cross-check of the encoding), and the Store navigation laws (path_to / path_for / get_path vs '
     'lexical normal form) on real Store trees, which are outside the translated subset.',
     driver='bounded.c17', assumptions=[OWN])
