"""Per-property configuration of the checks (levels, drivers, explanations)."""

FLOATS = 'Python floats are treated as mathematical reals in every obligation that mentions time or float values'
OWN = ('value semantics for dicts/lists (ownership-tree assumption: a nested container is reachable from one '
       'parent slot) except where sharing is stated explicitly')

PROPS = {}


def prop(pid, level, explanation, driver=None, trusted=(), assumptions=(), rule=None, native_n=None,
         driver_timeout=None, driver_args=(), drivers=None):
    PROPS[pid] = dict(drivers=drivers, level=level, explanation=explanation, driver=driver, trusted=list(trusted),
                      assumptions=list(assumptions), native_n=native_n or {}, driver_timeout=driver_timeout or {},
                      driver_args=list(driver_args))
    if rule:
        PROPS[pid]['rule'] = rule


prop('C17', 'other',
     "PROVED (unbounded, all trees/paths): normalize_path == norm; get_in == tget; delete_in == tdel; assoc_path == tset; update_in == tupd∘f with only the addressed subtree changed; starts_with == prefix; paths_to_dict == fold of assoc_path; Store.path_to == one '..' per element of self's path after the longest common prefix followed by the rest of the target's path; lemmas get_assoc (get_in reads what assoc_path wrote) and delete_get (delete_in removes the entry). BOUNDED: the same contracts natively on generated inputs; Store navigation laws (path_for / get_path / walk vs lexical normal form) on real Store trees.",
     driver='bounded.c17', assumptions=[OWN])

SCHED_RULE = ('seeded random schedules + a systematic family (slow always-on process next to a fast conditional one under '
              'short caller-managed run_for calls, enumerated completely); non-trivial = >= 2 distinct timesteps or a '
              'quiet/deferred invocation actually occurred (measured on the trace); distinct by scenario description')

prop('C01', 'other',
     'PROVED on the real source of Engine.run_for (511 obligations, all loops cut at invariants, any number of processes visited in any order, any sequence of timestep/condition answers, any call sequence -- the invariant is the pre- and postcondition): ghost ledger on Defer objects: a pending update is never overwritten (assert before the store into front), every token handed to _send_updates is issued, unconsumed and due exactly now, _send_updates consumes each collected token exactly once (Defer.get precondition) and no other, consumed tokens satisfy applied_at == due, no pending update crosses a call boundary. ASSUMED: behavioural contracts of user processes and of Defer.get / Store.apply_update (trusted, bounded-checked), floats as reals, no global_time_precision (that instance is bounded only), interval > 0, and the region of the known finding F-C03-shrink is excluded by an explicit environment assumption. BOUNDED: the observable form (accumulating variables at every emitted time == sum of updates whose interval ended) and the token discipline on the real engine.',
     drivers=[('bounded.sched', ['--prop', 'C01']), ('bounded.struct', ['--prop', 'C01']), ('bounded.c12', [])], rule=SCHED_RULE, assumptions=[FLOATS])
prop('C02', 'other',
     'PROVED on the real source of Engine.run_for (511 obligations, all loops cut at invariants, any number of processes visited in any order, any sequence of timestep/condition answers, any call sequence -- the invariant is the pre- and postcondition): at the only call site of _process_update the timestep handed over equals future - process_time (ghost assert; under forced truncation it is end_time - process_time), tokens carry g_dt == g_due - g_start, and after run_for(force_complete=True) every front is at global_time with nothing pending, which discharges the two run-time asserts of _check_complete as obligations. BOUNDED: clock-like variables equal elapsed time on the real engine, contiguity of intervals.',
     drivers=[('bounded.sched', ['--prop', 'C02']), ('bounded.struct', ['--prop', 'C02'])], rule=SCHED_RULE, assumptions=[FLOATS])
prop('C03', 'other',
     'PROVED on the real source of Engine.run_for (511 obligations, all loops cut at invariants, any number of processes visited in any order, any sequence of timestep/condition answers, any call sequence -- the invariant is the pre- and postcondition): every assignment to global_time keeps old <= new <= end_time, the call returns with global_time == start + interval exactly, full_step is strictly positive whenever finite (strict progress of every applying iteration), emit times are strictly increasing for emit_step 1. NOT PROVED (bounded only): termination (watchdog incl. all-quiet and empty composites), the decimal-grid clause under global_time_precision (float rounding is outside the real-number encoding).',
     driver='bounded.sched', driver_args=['--prop', 'C03'], rule=SCHED_RULE, assumptions=[FLOATS])
prop('C12', 'other',
     'PROVED: in run_for the ghost emit log only grows by the current global_time, right after _send_updates (which ends with the step phase), with strictly increasing times for emit_step 1 and non-decreasing times otherwise. BOUNDED: one configuration record first, a row after construction and after every batch, rows equal to the projection of the hierarchy on the emit flags (Store.emit_data is outside the translated subset). ALSO PROVED: _emit_store_data hands the emitter exactly one history record whose data is the emit view plus time == the current global time of the engine; RAMEmitter.emit keys rows by that time, deep-merges a row emitted again for a recorded time and refuses it exactly when it disagrees somewhere (deep_merge_check in the mode the emitter uses, refusal contract both ways); serialize_value is summarised as the identity on plain data.',
     drivers=[('bounded.sched', ['--prop', 'C12']), ('bounded.c12', [])], rule=SCHED_RULE)

prop('C14', 'exploration',
     'BOUNDED ONLY: the substance of serialization lives in orjson and pint (external, no contract within reach can '
     'express a round trip through them). Contracts evaluated on the real serialize_value/deserialize_value over '
     'generated value trees: output is plain JSON data, serialize is idempotent on its output, deserialize(serialize(x)) '
     'equals x modulo what JSON cannot represent (tuples/sets/arrays come back as lists), unsupported values and '
     'non-string keys raise TypeError.',
     driver='bounded.c14', rule='seeded random value trees of depth <= 3/4 over the value pool of the statement; '
     'non-trivial = container values; distinct by repr',
     trusted=['orjson', 'pint', 'numpy'])
prop('C18', 'other',
     'PROVED: RAMEmitter.get_data(query) returns, for every emitted time and no other, the dictionary built from exactly the queried paths that are present (not None) in THAT row -- independent of all other rows (inner-loop invariant paths_data == qpairs(row, query, i)); without a query the saved rows themselves; paths_to_dict == fold of assoc_path. BOUNDED: timeseries / path-timeseries laws and queries on generated histories (falsy values, changing shapes).',
     driver='bounded.c18')
prop('C19', 'other',
     'PROVED: initialize_timeline leaves a timeline strictly increasing in time (equal times merged), given the trusted contract of sorted(); next_update consumes from the head exactly the events whose time has been reached (all removed events are due, every remaining event is later, the rest is unchanged and in order), however many fall due in one tick. NOT PROVED: that no event is lost by the sort (permutation argument) and the content of the returned update (nested_set re-binds its parameter: trusted). BOUNDED: all permutations of event multisets x timesteps on the real engine against reference semantics.',
     driver='bounded.c19')

TOPO_RULE = ('seeded random (ports schema, topology, placement, partial initial state) from the shape families plain, "..", '
             '_path split/rename, two ports on one store, leaf port, nested port, glob, glob with own _path, nested glob; '
             'oracle addr = independent reading of the topology documentation')
prop('C06', 'other',
     'PROVED (write-side helpers, all inputs): normalize_path == lexical normal form, assoc_path == tset, update_in changes only the addressed subtree (tupd) and creates the documented dictionaries, deep_merge == right-biased deep merge. NOT PROVED: inverse_topology itself (recursion with lambdas and in-place merges) and the read side (Store schema machinery). BOUNDED: read/write symmetry against the independent addr oracle on the real engine over the topology shape families.',
     drivers=[('bounded.topo', ['--prop', 'C06']), ('bounded.struct', ['--prop', 'C06'])], rule=TOPO_RULE)
prop('C07', 'other',
     "PROVED (the engine side): _process_state -- the only place where a process is shown its states -- has the precondition 'views valid'; run_for, _send_updates and run_steps establish it at every call site: after any applied update that reports expiry the views are rebuilt before anything is invoked. TRUSTED: Store.apply_update reports expiry for every structural key; build_topology_views builds the declared shape. BOUNDED (the substance): states have exactly the declared shape, glob ports list exactly the current children, after every structural history.",
     drivers=[('bounded.topo', ['--prop', 'C07']), ('bounded.struct', ['--prop', 'C07']), ('bounded.steps', ['--prop', 'C07'])],
     rule=TOPO_RULE)
prop('C15', 'exploration',
     'BOUNDED ONLY (Store._apply_config / generate are schema-driven code outside the translated subset): after '
     'construction every declared variable exists at addr(q) holding the initial value if given else the declared default; '
     'glob children named in the initial state get the sub-schema defaults; nested globs with explicitly wired inner children.',
     drivers=[('bounded.topo', ['--prop', 'C15']), ('bounded.c13', ['--only', 'override', '--prop', 'C15']), ('bounded.c16', ['--only', 'fresh', '--prop', 'C15'])], rule=TOPO_RULE)
STRUCT_RULE = ('seeded random structural histories (<=3/4 ticks, 1-2 operations per tick from _add,_delete,_generate,_divide,'
               '_move plus value updates) against a reference model of the value tree, node identities, live-set bookkeeping')
prop('C09', 'exploration',
     'PROVED (small part): Store.add raises iff the key exists, Store._delete_path removes exactly one child of one node, Engine._add_process_path registers the process it is given at its path (replacing an earlier registration). BOUNDED: after every batch the value tree equals the reference model of the documented meaning of the '
     'operations (double entry), all nodes not named by an operation keep identity and value, division conserves.',
     drivers=[('bounded.struct', ['--prop', 'C09']), ('bounded.c17', []), ('bounded.steps', ['--prop', 'C09'])], rule=STRUCT_RULE)
prop('C10', 'other',
     'PROVED: Engine._delete_path removes from the published processes/steps/topology/flow exactly the entry at the deleted path (tdel) and forgets all and only the process and step paths that have the deleted path as a prefix (starts_with == prefix, proved); run_for drops the fronts of deleted paths and gives new paths a front at the current global time (part of the run_for invariant); Engine.apply_update (second contract #bookkeeping): published topology/flow == old ones with EVERY entry reported by Store.apply_update written in order, then every reported deletion removed; every reported process not below a deletion is scheduled, everything below a deletion is forgotten; a reported step without a reported flow entry becomes a legacy sequential step; _add_step_path/_add_process_path register exactly what they are given. NOT PROVED: what Store.apply_update / Store.move / insert / divide report (named, not specified). BOUNDED: after every batch of a structural history engine paths == processes/steps in the Store tree, published composite == state.get_*(), invocation counts; steps that join through _generate run in every later phase in the documented order.',
     drivers=[('bounded.struct', ['--prop', 'C10']), ('bounded.steps', ['--prop', 'C10'])], rule=STRUCT_RULE)
prop('C05', 'other',
     "PROVED on run_steps / _send_updates / _calculate_update: a step phase runs exactly once after every batch (ghost phase counter, run_steps only reachable through _send_updates in run_for), every deferred step update of a layer is collected exactly once (Defer.get precondition, tokens distinct), all of a layer's updates are computed before any is applied, views are rebuilt after a layer whose updates expired them and before the next layer computes, steps are handed timestep 0 at the only call site. TRUSTED: the layering itself (networkx topological_generations + sorted). BOUNDED: random flow DAGs with derivers, nesting and a structural variant on the real engine.",
     drivers=[('bounded.steps', ['--prop', 'C05']), ('bounded.struct', ['--prop', 'C10'])])
prop('C04', 'other',
     'PROVED: in run_for every process invocation of one pass happens inside the polling loop, in which no update is applied (apply_update is only reachable through _send_updates after the loop; the loop is verified for an arbitrary visiting order of process_paths); in run_steps no update is applied while a layer is computed (ghost g_version frozen in the compute loop) and the views are valid (rebuilt after any expiring update) before the next layer or the next process is invoked (ghost g_views_valid, precondition of _process_state). BOUNDED: processes started together are shown identical states; steps of one layer see one committed state; the emitted trajectory is identical under permutations of the listing order (relational conclusion, not a postcondition of one call).',
     drivers=[('bounded.steps', ['--prop', 'C04']), ('bounded.sched', ['--prop', 'C04']), ('bounded.struct', ['--prop', 'C04'])])

prop('C08', 'other',
     'PROVED (all inputs): update_set, update_null, update_accumulate (int/float/mixed), update_nonnegative_accumulate (scalar branch) and update_merge (result is the right-biased deep merge of the update into the current value: unmentioned keys kept, new keys added, nested dicts merged) with deep_merge by contract. BOUNDED: the same laws through the real Store.apply_update (default updater, per-update _updater by name or function, _multi_update batches, dict_value, user functions, numpy arrays, units, unmentioned variables untouched, update object not modified).',
     drivers=[('bounded.c08', []), ('bounded.topo', ['--prop', 'C06'])], assumptions=[FLOATS])
prop('C11', 'other',
     'PROVED (all inputs): divide_set, divide_set_value, divide_zero, divide_null, assert_no_divide, divide_binomial '
     '(conservation for whatever numpy returns) and divide_split: for every integer (any size, any sign) the daughters sum '
     'to the mother and differ by at most 1; floats are halved; divide_split_dict: every key of the mother is in exactly one '
     'daughter with the value it had, no daughter holds another key, None gives two empty dictionaries (assuming that '
     'list(d.items()) enumerates every key once, in an order fixed by the dict value). BOUNDED: Store.divide end to end on the real engine (all '
     'registered dividers incl. split_dict, dividers with config, branch-level dividers, explicit daughter states, '
     'independence of daughters under in-place updates, two generations).',
     drivers=[('bounded.c11', []), ('bounded.struct', ['--prop', 'C11'])], assumptions=[FLOATS])
prop('C13', 'other',
     "PROVED (command protocol): pre_send_command refuses a second command exactly when one is pending; get_command_result raises exactly when none is pending and clears it; ParallelProcess.send_command / get_command_result keep the count of answers owed by the child; ParallelProcess.end never raises (no 'still pending' RuntimeError: the in-flight answer is collected first), sends `end` exactly once, waits for the child only after everything it owes has been read (ghost assert before join: otherwise parent and child can wait for each other), joins and closes exactly once, does nothing on a second call and keeps an in-flight result collectable. TRUSTED: pipes FIFO/faithful, join/close. BOUNDED: serial == parallel, deletion with idle/due/in-flight workers, end() once/twice/never, profiling, no live worker afterwards.",
     drivers=[('bounded.c13', [])], driver_timeout={'quick': 900, 'thorough': 7200},
     trusted=['multiprocessing pipes are FIFO and faithful; join returns once the child left its loop'])
prop('C16', 'exploration',
     'PROVED: deep_merge == right-biased deep merge and assoc_in (the embedding helper of generate) == the value at the path with dictionaries created on the way, every other entry kept, argument unchanged. BOUNDED: embedding at a path == at the root; three engine entry points give one trajectory; merge sequences '
     'equal the model union; merged-in composites and argument dictionaries are never changed, then or later.',
     drivers=[('bounded.c16', [])])
