"""PyVC driver: extract real source, build entry state from the contract, run the
symbolic executor, discharge obligations, decode counterexamples."""
import ast
import hashlib
import importlib
import os
import sys
import time
import traceback
import z3

from . import ty as T
from . import spec as S
from .symex import (SV, State, Exec, Ctx, OutOfSubset, ContractDrift, fresh_sv, truthy, coerce, XREAL)
from .stmts import Runner, assigned_names, Outcome
from .calls import parse_exprs

REPO = os.environ.get('VERIF_REPO', '/repo')
DROPPED = ("docstrings; type annotations and cast(); calls of log.*/logging.*/warnings.*/print/pp/pf/"
           "print_progress_bar/_print_summary (no effect on modelled state)")


class Resolver:
    """Finds the real source of functions under contract in /repo (current working tree)."""

    def __init__(self, repo=REPO):
        self.repo = repo
        self.cache = {}

    def module_ast(self, module):
        if module not in self.cache:
            path = os.path.join(self.repo, *module.split('.')) + '.py'
            if not os.path.exists(path):
                path = os.path.join(self.repo, *module.split('.'), '__init__.py')
            src = open(path).read()
            self.cache[module] = (ast.parse(src), src, path)
        return self.cache[module]

    def find(self, con):
        mod, src, path = self.module_ast(con.module)
        parts = con.qual.split('.')
        body = mod.body
        node = None
        for p in parts:
            node = None
            for n in body:
                if isinstance(n, (ast.FunctionDef, ast.ClassDef)) and n.name == p:
                    node = n
                    break
            if node is None:
                raise ContractDrift('%s not found in %s' % (con.qual, path))
            body = node.body
        seg = ast.get_source_segment(src, node)
        return node, seg, path

    def signature(self, con):
        if con.params is not None:
            return {'params': con.params, 'defaults': {k: ast.parse(v, mode='eval').body for k, v in con.defaults.items()}}
        node, _, _ = self.find(con)
        a = node.args
        params = [x.arg for x in a.args]
        defaults = {}
        for name, d in zip(params[len(params) - len(a.defaults):], a.defaults):
            defaults[name] = d
        return {'params': params, 'defaults': defaults}

    def module_consts(self, module):
        mod, _, _ = self.module_ast(module)
        out = {}
        for n in mod.body:
            if isinstance(n, ast.Assign) and len(n.targets) == 1 and isinstance(n.targets[0], ast.Name):
                if isinstance(n.value, (ast.Constant,)):
                    out[n.targets[0].id] = n.value
        return out


def strip_docstring(body):
    if body and isinstance(body[0], ast.Expr) and isinstance(body[0].value, ast.Constant) and \
            isinstance(body[0].value.value, str):
        return body[1:]
    return body


def mutated_names(body):
    """names on which an in-place mutation is performed (subscript store, mutating method, del x[k], or passed
    as a `mutates` argument to a callee)."""
    out = set()
    for n in ast.walk(ast.Module(body=body, type_ignores=[])):
        if isinstance(n, (ast.Assign, ast.AugAssign)):
            tgts = n.targets if isinstance(n, ast.Assign) else [n.target]
            for t in tgts:
                while isinstance(t, (ast.Subscript,)):
                    t = t.value
                    if isinstance(t, ast.Name):
                        out.add(t.id)
        if isinstance(n, ast.Delete):
            for t in n.targets:
                while isinstance(t, ast.Subscript):
                    t = t.value
                    if isinstance(t, ast.Name):
                        out.add(t.id)
        if isinstance(n, ast.Call) and isinstance(n.func, ast.Attribute) and \
                n.func.attr in ('append', 'extend', 'pop', 'update', 'setdefault', 'remove'):
            t = n.func.value
            while isinstance(t, ast.Subscript):
                t = t.value
            if isinstance(t, ast.Name):
                out.add(t.id)
        if isinstance(n, ast.Call):
            nm = n.func.attr if isinstance(n.func, ast.Attribute) else getattr(n.func, 'id', None)
            for k, c in S.CONTRACTS.items():
                if c.qual.split('.')[-1] == nm and c.mutates:
                    try:
                        params = [p for p in _SIG_RESOLVER.signature(c)['params'] if p != 'self']
                    except Exception:
                        params = None
                    for ai, a in enumerate(n.args):
                        if params is not None and (ai >= len(params) or params[ai] not in c.mutates):
                            continue        # only arguments bound to parameters the callee mutates in place
                        t = a
                        while isinstance(t, ast.Subscript):
                            t = t.value
                        if isinstance(t, ast.Name):
                            out.add(t.id)
    return out


_SIG_RESOLVER = Resolver()


def new_heap_wf(ex, st):
    pass


class Result:
    def __init__(self, key):
        self.key = key
        self.status = 'ok'            # ok | undecided | violated | error
        self.obligations = []         # dicts
        self.reason = ''
        self.sha = ''
        self.path = ''
        self.lineno = 0
        self.assumptions = []
        self.time = 0.0
        self.infeasible = 0
        self.canary = None
        self.cover = None
        self.instance = None
        self.props = []
        self.kind = 'function'


def ghost_instance(ctx, resolver, g, cargs, app):
    """One-step unfolding instance of a ghost function application."""
    ex = Exec(ctx, None, g.types, resolver)
    saved = ctx.mode
    ctx.mode = 'ghost'
    try:
        st = State()
        for p, a in zip(g.params, cargs):
            st.env[p] = a
        ex.mutated_names = set()
        r = Runner(ex)
        body = strip_docstring(g.node.body)
        outs = r.run_block(body, st)
        rty = T.parse_type(g.ret)
        clauses = []
        for o in outs:
            if o.kind != 'return':
                raise OutOfSubset('ghost %s: path without return' % g.name)
            v = coerce(o.val, rty)
            if v is None:
                raise OutOfSubset('ghost %s returns %s, declared %s' % (g.name, o.val.ty, rty))
            pc = z3.And(*o.st.pc) if o.st.pc else z3.BoolVal(True)
            clauses.append(z3.Implies(pc, app == v.t))
        return z3.And(*clauses)
    finally:
        ctx.mode = saved


def find_ghost_apps(ctx, formulas):
    """ghost applications syntactically present in formulas -> {sexpr: (gname, app)}"""
    names = {'g!' + n: n for n in ctx.ghost_funcs}
    found = {}
    seen = set()
    stack = list(formulas)
    while stack:
        e = stack.pop()
        i = e.get_id()
        if i in seen:
            continue
        seen.add(i)
        if z3.is_quantifier(e):
            stack.append(e.body())
            continue
        if z3.is_app(e):
            dn = e.decl().name()
            if dn in names and not _has_bound_var(e):
                found[e.sexpr()] = (names[dn], e)
            stack.extend(e.children())
    return found


def _has_bound_var(e):
    """True if e mentions a variable bound OUTSIDE e (de Bruijn index escaping e's own binders)."""
    seen = set()

    def rec(x, depth):
        key = (x.get_id(), depth)
        if key in seen:
            return False
        seen.add(key)
        if z3.is_var(x):
            return z3.get_var_index(x) >= depth
        if z3.is_quantifier(x):
            return rec(x.body(), depth + x.num_vars())
        if z3.is_app(x):
            return any(rec(c, depth) for c in x.children())
        return False
    return rec(e, 0)


def quantified_definitions(ctx, resolver, formulas):
    """For ghost functions declared quantified=True that occur in the formulas: the definition as a
    universally quantified axiom with the application as its pattern (closure under the functions that the
    definitions themselves mention)."""
    out = []
    seen = set()
    work = list(formulas)
    for _ in range(4):
        names = set()
        stack = list(work)
        visited = set()
        while stack:
            e = stack.pop()
            if e.get_id() in visited:
                continue
            visited.add(e.get_id())
            if z3.is_quantifier(e):
                stack.append(e.body())
            elif z3.is_app(e):
                dn = e.decl().name()
                if dn.startswith('g!') and dn[2:] in S.GHOSTS and S.GHOSTS[dn[2:]].quantified:
                    names.add(dn[2:])
                stack.extend(e.children())
        new = []
        for n in sorted(names - seen):
            seen.add(n)
            g = S.GHOSTS[n]
            ptypes = [T.parse_type(g.types[p]) for p in g.params]
            consts = [z3.Const('%s!qd_%s' % (p, n), pt.sort()) for p, pt in zip(g.params, ptypes)]
            cargs = [SV(pt, c) for pt, c in zip(ptypes, consts)]
            rty = T.parse_type(g.ret)
            if n not in ctx.ghost_funcs:
                ctx.ghost_funcs[n] = z3.Function('g!' + n, *([p.sort() for p in ptypes] + [rty.sort()]))
            app = ctx.ghost_funcs[n](*consts)
            body = ghost_instance(ctx, resolver, g, cargs, app)
            ax = z3.ForAll(consts, body, patterns=[app])
            new.append(ax)
        if not new:
            break
        out.extend(new)
        work = new
    return out


def unfold(ctx, resolver, formulas, fuel):
    """Add definition instances for the ghost applications in formulas (to depth `fuel`)."""
    done = {}
    extra = quantified_definitions(ctx, resolver, formulas)
    frontier = list(formulas) + list(extra)
    for _ in range(fuel):
        apps = find_ghost_apps(ctx, frontier)
        new = []
        for sx, (gname, app) in apps.items():
            if sx in done:
                continue
            g = S.GHOSTS[gname]
            ptypes = [T.parse_type(g.types[p]) for p in g.params]
            cargs = [SV(pt, app.arg(i)) for i, pt in enumerate(ptypes)]
            if g.opaque or g.quantified:
                done[sx] = None
                continue
            inst = ghost_instance(ctx, resolver, g, cargs, app)
            done[sx] = inst
            new.append(inst)
        if not new:
            break
        extra.extend(new)
        frontier = new
    return extra


def fork_map(fn, n, jobs):
    """Evaluate fn(0..n-1) in `jobs` forked children (z3 terms are not picklable, so the obligations are
    inherited through fork and only plain results travel back through pipes)."""
    import pickle
    jobs = max(1, min(jobs, n))
    kids = []
    for j in range(jobs):
        r, w = os.pipe()
        pid = os.fork()
        if pid == 0:
            os.close(r)
            out = []
            try:
                for i in range(j, n, jobs):
                    try:
                        out.append((i, fn(i)))
                    except Exception as e:     # noqa
                        out.append((i, {'name': 'obligation#%d' % i, 'kind': '?', 'line': 0, 'verdict': 'unknown',
                                        'time_s': 0, 'text': '', 'backend': 'z3', 'reason': 'worker error: %s' % e}))
                with os.fdopen(w, 'wb') as f:
                    pickle.dump(out, f)
            finally:
                os._exit(0)
        os.close(w)
        kids.append((pid, r))
    results = {}
    for pid, r in kids:
        with os.fdopen(r, 'rb') as f:
            data = f.read()
        os.waitpid(pid, 0)
        if data:
            for i, rec in pickle.loads(data):
                results[i] = rec
    out = []
    for i in range(n):
        out.append(results.get(i, {'name': 'obligation#%d' % i, 'kind': '?', 'line': 0, 'verdict': 'unknown',
                                   'time_s': 0, 'text': '', 'backend': 'z3', 'reason': 'worker died'}))
    return out


def second_backend(solver, timeout_s):
    """Re-check one query with the system z3 (4.8.12) through SMT-LIB2 text."""
    import subprocess
    import tempfile
    txt = solver.to_smt2()
    with tempfile.NamedTemporaryFile('w', suffix='.smt2', delete=False, dir=os.environ.get('PYVC_TMP', '/tmp')) as f:
        f.write(txt)
        name = f.name
    t0 = time.time()
    try:
        p = subprocess.run(['/usr/bin/z3', '-T:%d' % timeout_s, '-smt2', name], capture_output=True, text=True,
                           timeout=timeout_s + 10)
        out = (p.stdout.strip().split('\n') or ['?'])[0].strip()
    except Exception as e:          # noqa
        out = 'error: %s' % e
    finally:
        try:
            os.unlink(name)
        except OSError:
            pass
    verdict = out if out in ('sat', 'unsat', 'unknown') else ('unknown' if 'timeout' in out else 'error')
    return {'solver': '/usr/bin/z3 4.8.12 (SMT-LIB2)', 'verdict': verdict, 'time_s': round(time.time() - t0, 3)}


def _verdict(r):
    return 'discharged' if r == z3.unsat else ('failed' if r == z3.sat else 'unknown')


_GENERIC = None


def _symbols(e, cache):
    """uninterpreted constants / functions occurring in e (by name), without the generic datatype vocabulary"""
    k = e.get_id()
    if k in cache:
        return cache[k]
    out = set()
    stack = [e]
    seen = set()
    while stack:
        x = stack.pop()
        i = x.get_id()
        if i in seen:
            continue
        seen.add(i)
        if z3.is_quantifier(x):
            stack.append(x.body())
        elif z3.is_app(x):
            d = x.decl()
            if d.kind() == z3.Z3_OP_UNINTERPRETED:
                out.add(d.name())
            stack.extend(x.children())
    cache[k] = out
    return out


def _cone_of_influence(goal, assumptions, rounds):
    cache = {}
    syms = set(_symbols(goal, cache))
    asyms = [(a, _symbols(a, cache)) for a in assumptions]
    keep = [False] * len(asyms)
    for _ in range(rounds):
        grew = False
        new_syms = set()
        for idx, (a, sy) in enumerate(asyms):
            if not keep[idx] and (not sy or sy & syms):
                keep[idx] = True
                new_syms |= sy
                grew = True
        syms |= new_syms
        if not grew:
            break
    return [a for (a, _), k in zip(asyms, keep) if k]


def discharge(ctx, resolver, ob, timeout_ms, fuel=2):
    t0 = time.time()
    formulas = list(ob.assumptions) + [ob.goal]
    extra = unfold(ctx, resolver, formulas, fuel)

    def cone(rounds, tmo, seed=0):
        """only the assumptions in the cone of influence of the goal (shared uninterpreted symbols).  Dropping
        assumptions can only lose proofs, never create one: `unsat` is sound, anything else is ignored."""
        keep = _cone_of_influence(ob.goal, list(ob.assumptions) + list(extra), rounds)
        s3 = z3.Solver()
        s3.set('timeout', tmo)
        if seed:
            s3.set('random_seed', seed)
        s3.add(T.atoms_distinct())
        for a in keep:
            s3.add(a)
        s3.add(z3.Not(ob.goal))
        try:
            return (s3.check() == z3.unsat), s3
        except z3.Z3Exception:
            return False, s3

    # 1. the reduced query first: most valid obligations need a handful of assumptions, and the irrelevant quantified
    #    well-formedness axioms are what makes the full query slow and unstable
    #    (quantifier instantiation is sensitive to the seed and to the size of the cone: a valid goal that takes 0.1 s in one
    #    configuration can take a minute in the next, so several cheap configurations are tried before the expensive ones)
    for rounds, seed in ((2, 0), (2, 7), (1, 7), (1, 3)):
        ok, s = cone(rounds, min(timeout_ms, 10000), seed)
        if ok:
            return 'discharged', time.time() - t0, None, s
    # 2. the full query (also the only one whose model is a counterexample)
    s = z3.Solver()
    s.set('timeout', timeout_ms)
    s.add(T.atoms_distinct())
    for a in ob.assumptions:
        s.add(a)
    for e in extra:
        s.add(e)
    s.add(z3.Not(ob.goal))
    try:
        r = s.check()
    except z3.Z3Exception:
        r = z3.unknown
    verdict = _verdict(r)
    if verdict == 'unknown':
        # 3. retry with a different seed / more fuel
        s2 = z3.Solver()
        s2.set('timeout', timeout_ms)
        s2.set('random_seed', 7)
        s2.add(T.atoms_distinct())
        extra2 = unfold(ctx, resolver, formulas, fuel + 1)
        for a in list(ob.assumptions) + extra2:
            s2.add(a)
        s2.add(z3.Not(ob.goal))
        try:
            r2 = s2.check()
        except z3.Z3Exception:
            r2 = z3.unknown
        if r2 != z3.unknown:
            verdict = _verdict(r2)
            s = s2
    if verdict == 'unknown':
        # 4. wider cones with the full budget
        for rounds in (2, 3):
            ok, s3 = cone(rounds, timeout_ms)
            if ok:
                verdict = 'discharged'
                s = s3
                break
    model = None
    if verdict == 'failed':
        try:
            model = s.model()
        except z3.Z3Exception:
            model = None
    return verdict, time.time() - t0, model, s


def decode(model, sv, depth=0):
    """Decode a model value into a Python object (best effort)."""
    from .decode import decode_value
    return decode_value(model, sv)


def verify_contract(con, instance=None, timeout_ms=30000, resolver=None, want_smt=False):
    """Verify one function under contract. Returns Result."""
    resolver = resolver or Resolver()
    res = Result(con.key)
    res.props = list(con.props)
    res.instance = instance
    t0 = time.time()
    try:
        node, seg, path = resolver.find(con)
        res.sha = hashlib.sha256(seg.encode()).hexdigest()[:16]
        res.path, res.lineno = path, node.lineno
        fname = con.qual + (('#' + con.variant) if getattr(con, 'variant', '') else '') + (('[%s]' % instance['name']) if instance else '')
        ctx = Ctx(fname, con.props, module_consts=resolver.module_consts(con.module), timeout_ms=timeout_ms)
        types = dict(con.types)
        if instance:
            types.update(instance.get('types', {}))
        self_class = getattr(con, 'self_class', None) or \
            (con.qual.split('.')[0] if '.' in con.qual and con.qual.split('.')[0] in S.CLASSES else None)
        ex = Exec(ctx, con, types, resolver, self_class=self_class)
        body = strip_docstring(node.body)
        ex.mutated_names = mutated_names(body)
        ex.function_body = body
        st = State()
        params = [a.arg for a in node.args.args]
        if node.args.vararg or node.args.kwarg or node.args.kwonlyargs:
            raise OutOfSubset('*args/**kwargs signature')
        for p in params:
            if p == 'self' and self_class:
                v = fresh_sv('self', T.Ref(self_class))
                st.pc.append(v.t > 0)
                st.env[p] = v
                continue
            if p not in types:
                raise ContractDrift('parameter %s of %s has no type in the contract' % (p, con.key))
            pty = T.parse_type(types[p])
            if isinstance(pty, T.Fun):
                f = z3.Function('fun!' + p, *([a.sort() for a in pty.args] + [pty.ret.sort()]))
                st.env[p] = SV(pty, f)
                continue
            v = fresh_sv(p, pty)
            st.pc.extend(pty.wf(v.t))
            st.env[p] = v
        for p in con.types:
            if p not in params and p != 'ret' and p not in assigned_names(body) and not p.startswith('_') \
                    and not p.startswith('g_') and p not in _bound_names(con):
                # a type for a local the body does not (or no longer) assign: harmless -- types only matter for names that
                # exist; a spec expression that still refers to the name fails on its own (unknown name).  Reported, not fatal:
                # a refactoring that drops a temporary must not make the check undecided.
                ctx.assumptions_used.add('NOTE: contract of %s declares a type for %s, which the body does not assign (ignored)'
                                         % (con.key, p))
        # allocation counter
        st.heap[('$alloc', 'next')] = z3.Int('alloc!entry')
        st.pc.append(st.heap[('$alloc', 'next')] > 0)
        for p in params:
            v = st.env[p]
            if isinstance(v.ty, T.Ref):
                st.pc.append(v.t < st.heap[('$alloc', 'next')])
        # requires
        ctx.mode = 'spec-assume'
        reqs = parse_exprs(con.requires + (instance.get('requires', []) if instance else []))
        for r in reqs:
            st.pc.append(truthy(ex.ev(r, st)))
        for a_src, a_ast in zip(con.assumes, parse_exprs(list(con.assumes))):
            st.pc.append(truthy(ex.ev(a_ast, st)))
            ctx.assumptions_used.add('ENTRY ASSUMPTION in %s (not required from callers): %s  [%s]'
                                     % (fname, a_src, con.why_assumed))
        ctx.mode = 'code'
        old = st.copy()
        st.old = old
        # cover: requires satisfiable
        s = z3.Solver()
        s.set('timeout', 3000)
        s.add(T.atoms_distinct())
        s.add(*unfold(ctx, resolver, st.pc, 1))
        s.add(*st.pc)
        cov = s.check()
        res.cover = str(cov)
        if cov == z3.unsat:
            res.status = 'error'
            res.reason = 'vacuous: preconditions are unsatisfiable'
            return res
        runner = Runner(ex)
        outs = runner.run_block(body, st)
        ctx.paths = len(outs)
        # contract drift guards: every ghost anchor and every loop contract must have matched real code
        for anchor in (con.ghost or {}):
            if 'ghost:' + anchor not in ctx.reached:
                raise ContractDrift('ghost anchor %r matches no reachable statement of %s' % (anchor, con.qual))
        n_loops = len({(n.lineno, n.col_offset) for st_ in body for n in ast.walk(st_) if isinstance(n, (ast.For, ast.While))})
        for k in (con.loops or {}):
            idx = k[0] if isinstance(k, tuple) else k
            if idx >= n_loops:
                raise ContractDrift('loop contract %r but %s has only %d loops' % (k, con.qual, n_loops))
        ens = parse_exprs(con.ensures + (instance.get('ensures', []) if instance else []))
        rty = T.parse_type(types['ret']) if 'ret' in types else None
        normal = 0
        canary_states = []
        for o in outs:
            ex.cur_line = node.lineno
            if o.kind in ('next', 'return'):
                normal += 1
                ost = o.st
                val = o.val if o.kind == 'return' else SV(T.NONE, z3.BoolVal(True))
                if rty is not None:
                    c = coerce(val, rty)
                    if c is None:
                        raise OutOfSubset('return value %s vs declared %s' % (val.ty, rty))
                    ost.env['ret'] = c
                ost.old = old
                # a parameter that the body RE-BINDS (`update = {...}`) is a local from then on: in the postcondition the
                # parameter name means the argument the caller passed (unless the contract lists it under `mutates`)
                for p_ in _rebound_params(body, params):
                    if p_ not in con.mutates and p_ != 'self' and p_ in old.env:
                        ost.env[p_] = old.env[p_]
                ctx.mode = 'spec'
                if con.raises is not None and con.raises.get('when'):
                    w = parse_exprs([con.raises['when']])[0]
                    ost2 = State()
                    ost2.env, ost2.heap = dict(old.env), dict(old.heap)
                    g = z3.Not(truthy(ex.ev(w, ost2)))
                    ex.oblige(ost, g, 'raises', 'returns-only-when-allowed', text='not (' + con.raises['when'] + ')')
                # hints
                ctx.mode = 'spec-assume'
                for h in parse_exprs(con.hints):
                    ost.pc.append(truthy(ex.ev(h, ost)))
                ctx.mode = 'spec'
                for i, e in enumerate(ens):
                    g = truthy(ex.ev(e, ost))
                    ex.oblige(ost, g, 'post', str(i), text=ast.unparse(e))
                # frame: every heap field the body changed must be covered by `modifies`
                allowed_all, allowed_self = set(), set()
                for m in con.modifies:
                    if m.startswith('self.'):
                        allowed_self.add((ex.field_decl_class(self_class, m[5:]), m[5:]))
                    else:
                        c_, f_ = m.split('.', 1)
                        allowed_all.add((ex.field_decl_class(c_, f_), f_))
                for key, now in ost.heap.items():
                    if key[0] == '$alloc':
                        if not con.alloc and key in old.heap and not now.eq(old.heap[key]):
                            ex.oblige(ost, now == old.heap[key], 'frame', 'no-allocation',
                                      text='function allocates but its contract has no alloc=True')
                        continue
                    was = old.heap.get(key)
                    if was is None or now.eq(was) or key in allowed_all:
                        continue
                    r = z3.Int('r!frame')
                    if key in allowed_self:
                        g = z3.ForAll([r], z3.Implies(r != ost.env['self'].t, now[r] == was[r]))
                    else:
                        g = z3.ForAll([r], now[r] == was[r])
                    ex.oblige(ost, g, 'frame', '%s.%s' % key, text='field %s.%s not in modifies' % key)
                ctx.mode = 'code'
                canary_states.append(ost)
            elif o.kind == 'raise':
                ctx.mode = 'spec'
                if con.raises is not None:
                    w = con.raises.get('when')
                    if w:
                        ost2 = State()
                        ost2.env, ost2.heap = dict(old.env), dict(old.heap)
                        g = truthy(ex.ev(parse_exprs([w])[0], ost2))
                    else:
                        g = z3.BoolVal(True)
                    ex.oblige(o.st, g, 'raises', 'raise-only-when-allowed@L%d' % o.val.lineno, text=str(w))
                else:
                    ex.oblige(o.st, z3.BoolVal(False), 'safety', 'no-raise@L%d' % o.val.lineno,
                              text='raise statement must be unreachable')
                ctx.mode = 'code'
            else:
                raise OutOfSubset('stray %s at function level' % o.kind)
        # discharge
        if not ctx.obligations:
            res.status = 'error'
            res.reason = 'no obligations generated'
            return res
        worst = 'ok'
        debug = os.environ.get('PYVC_DEBUG')
        if debug:
            print('[pyvc] %s: %d paths, %d obligations, %d infeasible pruned, symex %.1fs'
                  % (fname, len(outs), len(ctx.obligations), ctx.infeasible, time.time() - t0), file=sys.stderr, flush=True)
        def one(i):
            ob = ctx.obligations[i]
            verdict, dt, model, solver = discharge(ctx, resolver, ob, timeout_ms)
            rec = {'name': ob.name, 'kind': ob.kind, 'line': ob.lineno, 'verdict': verdict,
                   'time_s': round(dt, 4), 'text': ob.text, 'backend': 'z3-' + z3.get_version_string()}
            if verdict == 'failed':
                from .decode import decode_inputs
                rec['counterexample'] = decode_inputs(model, old, params)
                rec['solver_output'] = str(model)[:4000] if model is not None else ''
            elif verdict == 'unknown':
                rec['reason'] = solver.reason_unknown()
            if want_smt:
                rec['smt2'] = solver.to_smt2()
            if os.environ.get('PYVC_BACKEND2') and verdict == 'discharged':
                rec['backend2'] = second_backend(solver, int(os.environ.get('PYVC_BACKEND2_TIMEOUT', '60')))
                if rec['backend2']['verdict'] == 'sat':
                    # the two solvers disagree: never count this as discharged
                    rec['verdict'] = 'unknown'
                    rec['reason'] = 'back ends disagree: z3 %s says unsat, %s says sat' % (z3.get_version_string(), rec['backend2']['solver'])
            if debug:
                print('[pyvc]   %s %s %.2fs L%s' % (verdict, ob.name, dt, ob.lineno), file=sys.stderr, flush=True)
            return rec
        jobs = int(os.environ.get('PYVC_JOBS', '1'))
        n_ob = len(ctx.obligations)
        if jobs > 1 and n_ob > 24:
            recs = fork_map(one, n_ob, jobs)
        else:
            recs = [one(i) for i in range(n_ob)]
        for rec in recs:
            if rec['verdict'] == 'failed':
                worst = 'violated'
            elif rec['verdict'] == 'unknown' and worst != 'violated':
                worst = 'undecided'
            res.obligations.append(rec)
        # canary: a false postcondition must NOT be provable
        if canary_states:
            cst = canary_states[0]
            cob = type(ctx.obligations[0])('canary', 'canary', list(cst.pc), z3.BoolVal(False), node.lineno, [], '')
            verdict, dt, model, _ = discharge(ctx, resolver, cob, 1500)
            res.canary = verdict
            if verdict == 'discharged':
                res.status = 'error'
                res.reason = 'canary proved: assumptions are contradictory on a normal exit path'
                return res
        elif normal == 0 and con.raises is None:
            res.status = 'error'
            res.reason = 'no normal exit path reached'
            return res
        res.status = worst
        res.assumptions = sorted(ctx.assumptions_used)
        res.infeasible = ctx.infeasible
    except ContractDrift as e:
        res.status = 'undecided'
        res.reason = 'contract drift: %s' % e
    except OutOfSubset as e:
        res.status = 'undecided'
        res.reason = 'out of subset: %s' % e
    except Exception as e:   # internal error
        res.status = 'error'
        res.reason = 'internal error: %s\n%s' % (e, traceback.format_exc()[-1500:])
    finally:
        res.time = time.time() - t0
    return res


def _rebound_params(body, params):
    """parameters that are the target of a plain-name assignment somewhere in the body"""
    out = set()
    for n in ast.walk(ast.Module(body=body, type_ignores=[])):
        tgts = []
        if isinstance(n, ast.Assign):
            tgts = n.targets
        elif isinstance(n, (ast.AugAssign, ast.AnnAssign)):
            tgts = [n.target]
        elif isinstance(n, (ast.For, ast.comprehension)):
            tgts = [n.target]
        for t in tgts:
            for m in ast.walk(t):
                if isinstance(m, ast.Name) and m.id in params and isinstance(getattr(m, 'ctx', None), ast.Store):
                    out.add(m.id)
    return out


def _bound_names(con):
    """names bound by lambdas in spec expressions"""
    out = set()
    for lst in (con.requires, con.ensures, con.hints):
        for e in lst:
            try:
                t = ast.parse(e, mode='eval') if isinstance(e, str) else e
            except SyntaxError:
                continue
            for n in ast.walk(t):
                if isinstance(n, ast.Lambda):
                    out.update(a.arg for a in n.args.args)
    for sp in con.loops.values():
        for key in ('invariant', 'hints'):
            for e in sp.get(key, []):
                try:
                    t = ast.parse(e, mode='eval')
                except SyntaxError:
                    continue
                for n in ast.walk(t):
                    if isinstance(n, ast.Lambda):
                        out.update(a.arg for a in n.args.args)
    return out


def verify_lemma(lm, timeout_ms=30000, resolver=None):
    resolver = resolver or Resolver()
    res = Result('lemma:' + lm.name)
    res.kind = 'lemma'
    res.props = list(lm.props)
    t0 = time.time()
    try:
        ctx = Ctx('lemma.' + lm.name, lm.props, timeout_ms=timeout_ms)
        ctx.current_lemma = lm
        types = dict(lm.types)
        types.update(lm.local_types)
        ex = Exec(ctx, None, types, resolver)
        ex.mutated_names = mutated_names(lm.body)
        st = State()
        for p in lm.params:
            pty = T.parse_type(lm.types[p])
            v = fresh_sv(p, pty)
            st.pc.extend(pty.wf(v.t))
            st.env[p] = v
        ctx.mode = 'spec-assume'
        for r in lm.requires:
            st.pc.append(truthy(ex.ev(r, st)))
        ctx.mode = 'code'
        old = st.copy()
        st.old = old
        s = z3.Solver()
        s.set('timeout', 3000)
        s.add(T.atoms_distinct())
        s.add(*st.pc)
        res.cover = str(s.check())
        if res.cover == 'unsat':
            res.status = 'error'
            res.reason = 'vacuous lemma: requires unsatisfiable'
            return res
        runner = Runner(ex)
        outs = runner.run_block(lm.body, st)
        first = None
        for o in outs:
            if o.kind not in ('next', 'return'):
                raise OutOfSubset('lemma body ends with %s' % o.kind)
            ost = o.st
            first = first or ost
            ctx.mode = 'spec'
            for i, e in enumerate(lm.ensures):
                # ensures are over the parameters (entry values)
                est = State()
                est.env = dict(old.env)
                est.heap = dict(old.heap)
                est.pc = ost.pc
                g = truthy(ex.ev(e, est))
                ex.oblige(ost, g, 'lemma', 'ensures.%d' % i, text=ast.unparse(e))
            ctx.mode = 'code'
        worst = 'ok'
        for ob in ctx.obligations:
            verdict, dt, model, solver = discharge(ctx, resolver, ob, timeout_ms, fuel=3)
            rec = {'name': ob.name, 'kind': ob.kind, 'line': ob.lineno, 'verdict': verdict,
                   'time_s': round(dt, 4), 'text': ob.text, 'backend': 'z3-' + z3.get_version_string()}
            if verdict == 'failed':
                worst = 'violated'
                rec['solver_output'] = str(model)[:3000]
            elif verdict == 'unknown' and worst != 'violated':
                worst = 'undecided'
            res.obligations.append(rec)
        if first is not None:
            cob = type(ctx.obligations[0])('canary', 'canary', list(first.pc), z3.BoolVal(False), 0, [], '')
            verdict, _, _, _ = discharge(ctx, resolver, cob, 1500)
            res.canary = verdict
            if verdict == 'discharged':
                res.status = 'error'
                res.reason = 'canary proved in lemma'
                return res
        res.status = worst
        res.assumptions = sorted(ctx.assumptions_used)
    except (OutOfSubset, ContractDrift) as e:
        res.status = 'undecided'
        res.reason = 'lemma out of subset: %s' % e
    except Exception as e:
        res.status = 'error'
        res.reason = 'internal error: %s\n%s' % (e, traceback.format_exc()[-1500:])
    finally:
        res.time = time.time() - t0
    return res
